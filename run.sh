#!/bin/sh
# usage: run.sh <property> <quick|thorough>   |   run.sh replay <file>
# Builds the driver if needed (offline, from files on disk) and runs it.
cd "$(dirname "$0")" || exit 2
export GOFLAGS=-mod=mod GOPROXY=off GOSUMDB=off GOTOOLCHAIN=local
if [ ! -x bin/vcheck ] || [ -n "$(find cmd/vcheck -newer bin/vcheck -name '*.go' 2>/dev/null)" ]; then
	mkdir -p bin
	(cd cmd/vcheck && go build -o ../../bin/vcheck .) || { echo "INFRASTRUCTURE: driver build failed"; exit 2; }
fi
if [ "$1" = "replay" ]; then
	exec ./bin/vcheck -replay "$2"
fi
exec ./bin/vcheck -property "$1" -tier "${2:-quick}"
