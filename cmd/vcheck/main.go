// Command vcheck is the driver of the decimal128 verification harness: it
// rebuilds the harness against /repo's current working tree, replays saved
// regressions and known-finding witnesses, runs the property's rapid tests as
// parallel shard processes, optionally runs bounded native fuzzing (thorough
// tier), merges the per-shard statistics into /verif/evidence/<id>.json and
// prints the verdict.
//
// Exit status: 0 property held on everything explored; 1 violation (a line
// "VIOLATION property=<id> replay=<path>" is printed); 2 infrastructure problem
// (build failure, timeout, worker death) — never accompanied by a VIOLATION line.
package main

import (
	"bufio"
	"bytes"
	"context"
	"encoding/binary"
	"encoding/json"
	"flag"
	"fmt"
	"os"
	"os/exec"
	"path/filepath"
	"sort"
	"strconv"
	"strings"
	"sync"
	"time"
)

type replayFile struct {
	Property string          `json:"property"`
	Check    string          `json:"check"`
	Args     json.RawMessage `json:"args"`
	Message  string          `json:"message,omitempty"`
	Note     string          `json:"note,omitempty"`
}

type replayResult struct {
	Path     string `json:"path"`
	Property string `json:"property"`
	Check    string `json:"check"`
	Violated bool   `json:"violated"`
	Message  string `json:"message,omitempty"`
	Error    string `json:"error,omitempty"`
}

type subStat struct {
	Prop     string           `json:"property"`
	Sub      string           `json:"sub"`
	Evals    int64            `json:"evaluations"`
	NTCount  int64            `json:"nontrivial"`
	Classes  map[string]int64 `json:"classes,omitempty"`
	Excluded map[string]int64 `json:"excluded,omitempty"`
	Samples  []struct {
		H    uint64 `json:"h"`
		Case any    `json:"case"`
	} `json:"samples,omitempty"`
	Notes    map[string]any `json:"notes,omitempty"`
	Exhaust  bool           `json:"exhaustive,omitempty"`
	HashFile string         `json:"hash_file,omitempty"`
}

type knownFinding struct {
	Property string
	Key      string
	Witness  string
	Text     string
}

var (
	root    string
	goEnv   []string
	verbose bool
)

func fatal2(format string, a ...any) {
	fmt.Printf("INFRASTRUCTURE: "+format+"\n", a...)
	os.Exit(2)
}

func main() {
	prop := flag.String("property", "", "property id (C01..C20)")
	tier := flag.String("tier", "", "quick or thorough (default: $VERIF_TIER or quick)")
	replay := flag.String("replay", "", "replay one saved case and report")
	keep := flag.Bool("keep", false, "keep the work directory")
	flag.BoolVar(&verbose, "v", false, "verbose")
	flag.Parse()

	var err error
	root, err = os.Getwd()
	if err != nil {
		fatal2("getwd: %v", err)
	}
	if r := os.Getenv("VERIF_ROOT"); r != "" {
		root = r
	}
	if _, err := os.Stat(filepath.Join(root, "harness", "go.mod")); err != nil {
		fatal2("run from /verif (harness/go.mod not found under %s)", root)
	}
	goEnv = append(os.Environ(), "GOFLAGS=-mod=mod", "GOPROXY=off", "GOSUMDB=off", "GOTOOLCHAIN=local", "CGO_ENABLED=1")

	if *tier == "" {
		*tier = os.Getenv("VERIF_TIER")
	}
	if *tier != "thorough" {
		*tier = "quick"
	}
	seed := uint64(1)
	if v, err := strconv.ParseUint(os.Getenv("VERIF_SEED"), 10, 64); err == nil {
		seed = v
	}

	if *replay != "" {
		os.Exit(doReplay(*replay, *keep))
	}
	p, ok := props[*prop]
	if !ok {
		fatal2("unknown property %q", *prop)
	}
	os.Exit(runProperty(*prop, p, *tier, seed, *keep))
}

func workDir(tag string) string {
	d := filepath.Join(root, ".work", fmt.Sprintf("%s-%d-%d", tag, os.Getpid(), time.Now().UnixNano()%1e9))
	if err := os.MkdirAll(d, 0o755); err != nil {
		fatal2("mkdir %s: %v", d, err)
	}
	return d
}

// build compiles the harness test binary against /repo's working tree.
func build(work string, race bool) (bin string, hooks bool) {
	bin = filepath.Join(work, "harness.test")
	try := func(tags string) ([]byte, error) {
		args := []string{"test", "-c", "-vet=off", "-o", bin}
		if tags != "" {
			args = append(args, "-tags", tags)
		}
		if race {
			args = append(args, "-race")
		}
		args = append(args, ".")
		cmd := exec.Command("go", args...)
		cmd.Dir = filepath.Join(root, "harness")
		cmd.Env = goEnv
		return cmd.CombinedOutput()
	}
	out, err := try("verif")
	if err == nil {
		return bin, true
	}
	out2, err2 := try("")
	if err2 == nil {
		fmt.Printf("NOTE: harness does not build with -tags verif (hook sub-checks inconclusive):\n%s\n", tail(out, 2000))
		return bin, false
	}
	fatal2("harness build failed:\n%s\n%s", tail(out, 3000), tail(out2, 3000))
	return
}

func tail(b []byte, n int) string {
	if len(b) > n {
		b = b[len(b)-n:]
	}
	return string(b)
}

func loadKnown(prop string) []knownFinding {
	var out []knownFinding
	f, err := os.Open(filepath.Join(root, "KNOWN_FINDINGS.txt"))
	if err != nil {
		return nil
	}
	defer f.Close()
	sc := bufio.NewScanner(f)
	sc.Buffer(make([]byte, 1<<20), 1<<20)
	for sc.Scan() {
		line := strings.TrimSpace(sc.Text())
		if !strings.HasPrefix(line, "finding:") {
			continue
		}
		k := knownFinding{}
		var text []string
		for _, w := range strings.Fields(strings.TrimPrefix(line, "finding:")) {
			switch {
			case strings.HasPrefix(w, "property=") && k.Property == "":
				k.Property = strings.TrimPrefix(w, "property=")
			case strings.HasPrefix(w, "key=") && k.Key == "":
				k.Key = strings.TrimPrefix(w, "key=")
			case strings.HasPrefix(w, "witness=") && k.Witness == "":
				k.Witness = strings.TrimPrefix(w, "witness=")
			default:
				text = append(text, w)
			}
		}
		k.Text = strings.Join(text, " ")
		if prop == "" || k.Property == prop {
			out = append(out, k)
		}
	}
	return out
}

// runReplays evaluates saved cases through TestReplay. With regionsActive the
// known-finding regions of KNOWN_FINDINGS.txt apply (as in the rapid runs);
// without it they do not, which is how the witness of a recorded finding is
// shown to fail still.
func runReplays(bin, work string, paths []string, regionsActive bool) ([]replayResult, error) {
	if len(paths) == 0 {
		return nil, nil
	}
	dir := filepath.Join(work, "replay")
	if !regionsActive {
		dir = filepath.Join(work, "replay-known")
	}
	os.MkdirAll(dir, 0o755)
	ctx, cancel := context.WithTimeout(context.Background(), 10*time.Minute)
	defer cancel()
	cmd := exec.CommandContext(ctx, bin, "-test.run", "^TestReplay$", "-test.timeout", "0")
	cmd.Dir = dir
	knownFile := filepath.Join(root, "KNOWN_FINDINGS.txt")
	if !regionsActive {
		knownFile = ""
	}
	cmd.Env = append(os.Environ(), "VERIF_OUT="+dir, "VERIF_REPLAY="+strings.Join(paths, ":"), "VERIF_KNOWN="+knownFile, "GORACE=halt_on_error=1 exitcode=66")
	out, err := cmd.CombinedOutput()
	b, rerr := os.ReadFile(filepath.Join(dir, "replay-results.json"))
	if rerr != nil {
		if cf, ok := readCrashCase(dir); ok {
			// a replayed case killed the process (fatal runtime error): find which one it was
			want := new(bytes.Buffer)
			_ = json.Compact(want, cf.Args)
			for _, p := range paths {
				var rf replayFile
				fb, e := os.ReadFile(p)
				if e != nil || json.Unmarshal(fb, &rf) != nil || rf.Check != cf.Check {
					continue
				}
				have := new(bytes.Buffer)
				_ = json.Compact(have, rf.Args)
				if len(paths) == 1 || bytes.Equal(have.Bytes(), want.Bytes()) {
					return []replayResult{{Path: p, Property: rf.Property, Check: rf.Check, Violated: true, Message: "process died during replay:\n" + tail(out, 1500)}}, nil
				}
			}
		}
		if len(paths) == 1 {
			if fl, _ := filepath.Glob(filepath.Join(dir, "inflight-*.json")); len(fl) > 0 {
				// the single replayed case aborted the process (e.g. the race detector reported a data race)
				var rf replayFile
				if fb, e := os.ReadFile(paths[0]); e == nil {
					_ = json.Unmarshal(fb, &rf)
				}
				return []replayResult{{Path: paths[0], Property: rf.Property, Check: rf.Check, Violated: true, Message: "process aborted during replay:\n" + tail(out, 1500)}}, nil
			}
		}
		return nil, fmt.Errorf("replay run produced no results (%v): %s", err, tail(out, 2000))
	}
	var res []replayResult
	if err := json.Unmarshal(b, &res); err != nil {
		return nil, err
	}
	return res, nil
}

func doReplay(path string, keep bool) int {
	abs, _ := filepath.Abs(path)
	b, err := os.ReadFile(abs)
	if err != nil {
		fatal2("read %s: %v", path, err)
	}
	var rf replayFile
	if err := json.Unmarshal(b, &rf); err != nil {
		fatal2("parse %s: %v", path, err)
	}
	work := workDir("replay")
	if !keep {
		defer os.RemoveAll(work)
	}
	bin, _ := build(work, props[rf.Property].Race)
	res, err := runReplays(bin, work, []string{abs}, true)
	if err != nil || len(res) != 1 {
		fmt.Printf("INFRASTRUCTURE: %v\n", err)
		return 2
	}
	r := res[0]
	if r.Error != "" {
		fmt.Printf("INFRASTRUCTURE: replay error: %s\n", r.Error)
		return 2
	}
	if r.Violated {
		fmt.Printf("replay %s: %s\n", path, r.Message)
		fmt.Printf("VIOLATION property=%s replay=%s\n", r.Property, path)
		return 1
	}
	fmt.Printf("replay %s: property %s holds on this case\n", path, r.Property)
	return 0
}

// readCrashCase returns the evaluation that was in progress when a harness
// process died (see "crash guard" in harness/framework.go), as a replay file.
func readCrashCase(dir string) (replayFile, bool) {
	b, err := os.ReadFile(filepath.Join(dir, "inflight-case.bin"))
	if err != nil || len(b) < 4 {
		return replayFile{}, false
	}
	n := int(b[0]) | int(b[1])<<8 | int(b[2])<<16 | int(b[3])<<24
	if n <= 0 || 4+n > len(b) {
		return replayFile{}, false
	}
	body := b[4 : 4+n]
	i := bytes.IndexByte(body, '\n')
	if i <= 0 || !json.Valid(body[i+1:]) {
		return replayFile{}, false
	}
	check := string(body[:i])
	prop := check
	if j := strings.IndexByte(check, '.'); j > 0 {
		prop = check[:j]
	}
	return replayFile{Property: prop, Check: check, Args: append(json.RawMessage(nil), body[i+1:]...)}, true
}

// confirmCrash re-runs a case that was in progress when a shard died, alone in a
// fresh process. Only a case that fails there as well (kills the process again,
// or is reported as a violation by its check) is attributed to the code under test.
func confirmCrash(bin, work string, idx int, rf replayFile, shardOut []byte) (string, bool) {
	rf.Message = "the process died while this case was being evaluated (fatal runtime error, not a recoverable panic):\n" + tail(shardOut, 1800)
	dir := filepath.Join(work, fmt.Sprintf("crash-%d", idx))
	os.MkdirAll(dir, 0o755)
	b, _ := json.MarshalIndent(rf, "", " ")
	path := filepath.Join(dir, "fail-"+rf.Check+".json")
	if os.WriteFile(path, b, 0o644) != nil {
		return "", false
	}
	res, err := runReplays(bin, dir, []string{path}, true)
	if err != nil || len(res) != 1 || res[0].Error != "" || !res[0].Violated {
		return "", false
	}
	return path, true
}

type shardResult struct {
	idx    int
	dir    string
	exit   int
	err    error
	output []byte
	timed  bool
}

func runProperty(id string, p propSpec, tier string, seed uint64, keep bool) int {
	start := time.Now()
	work := workDir(id + "-" + tier)
	if !keep {
		defer os.RemoveAll(work)
	}
	bin, hooks := build(work, p.Race)

	violations := 0
	var violationLines []string
	var knownLines []string

	// 1. regressions and known-finding witnesses
	regs, _ := filepath.Glob(filepath.Join(root, "regressions", id+"-*.json"))
	sort.Strings(regs)
	known := loadKnown(id)
	res, err := runReplays(bin, work, regs, true)
	if err != nil {
		fatal2("%v", err)
	}
	var knownPaths []string
	for _, k := range known {
		if k.Witness != "" {
			knownPaths = append(knownPaths, filepath.Join(root, k.Witness))
		}
	}
	kres, err := runReplays(bin, work, knownPaths, false)
	if err != nil {
		fatal2("%v", err)
	}
	res = append(res, kres...)
	regSet := map[string]bool{}
	for _, r := range regs {
		regSet[r] = true
	}
	replayed := 0
	for _, r := range res {
		if r.Error != "" {
			fatal2("replay %s: %s", r.Path, r.Error)
		}
		replayed++
		if regSet[r.Path] {
			if r.Violated {
				violations++
				rel, _ := filepath.Rel(root, r.Path)
				fmt.Printf("regression %s: %s\n", rel, r.Message)
				violationLines = append(violationLines, fmt.Sprintf("VIOLATION property=%s replay=%s", id, rel))
			}
			continue
		}
		for _, k := range known {
			if filepath.Join(root, k.Witness) == r.Path && r.Violated {
				knownLines = append(knownLines, fmt.Sprintf("KNOWN-FINDING: property=%s key=%s %s", id, k.Key, k.Text))
			}
		}
	}

	// 2. rapid shards
	shards := p.QuickShards
	limit := 12 * time.Minute
	if tier == "thorough" {
		shards = p.ThoroughShards
		limit = 90 * time.Minute
	}
	if shards < 1 {
		shards = 1
	}
	results := make([]shardResult, shards)
	var wg sync.WaitGroup
	for i := 0; i < shards; i++ {
		wg.Add(1)
		go func(i int) {
			defer wg.Done()
			dir := filepath.Join(work, fmt.Sprintf("shard-%d", i))
			os.MkdirAll(dir, 0o755)
			ctx, cancel := context.WithTimeout(context.Background(), limit)
			defer cancel()
			cmd := exec.CommandContext(ctx, bin, "-test.run", "^Test"+id+"_", "-test.timeout", "0", "-test.v")
			cmd.Dir = dir
			cmd.Env = append(os.Environ(),
				"VERIF_OUT="+dir,
				"VERIF_TIER="+tier,
				"VERIF_SEED="+strconv.FormatUint(seed, 10),
				"VERIF_SHARD="+strconv.Itoa(i),
				"VERIF_SHARDS="+strconv.Itoa(shards),
				"VERIF_KNOWN="+filepath.Join(root, "KNOWN_FINDINGS.txt"),
				"GORACE=halt_on_error=1 exitcode=66",
			)
			out, err := cmd.CombinedOutput()
			r := shardResult{idx: i, dir: dir, output: out, err: err}
			if ctx.Err() == context.DeadlineExceeded {
				r.timed = true
			}
			if cmd.ProcessState != nil {
				r.exit = cmd.ProcessState.ExitCode()
			} else {
				r.exit = -1
			}
			results[i] = r
		}(i)
	}
	wg.Wait()

	infra := ""
	regDir := filepath.Join(root, "regressions")
	if d := os.Getenv("VERIF_REGDIR"); d != "" {
		regDir = d // sensitivity runs against seeded changes must not pollute /verif/regressions
	}
	seenFail := map[string]bool{}
	for _, r := range results {
		if r.timed {
			infra = fmt.Sprintf("shard %d exceeded %v (inconclusive)", r.idx, limit)
			continue
		}
		if r.exit == 0 {
			if !bytes.Contains(r.output, []byte("\nPASS")) && !bytes.HasPrefix(r.output, []byte("PASS")) {
				infra = fmt.Sprintf("shard %d exited 0 without PASS:\n%s", r.idx, tail(r.output, 1500))
			}
			continue
		}
		fails, _ := filepath.Glob(filepath.Join(r.dir, "fail-*.json"))
		if len(fails) == 0 {
			// a case that killed the process (race detector abort, fatal error) leaves its arguments behind
			fails, _ = filepath.Glob(filepath.Join(r.dir, "inflight-*.json"))
			if len(fails) > 0 {
				fmt.Printf("shard %d aborted (exit %d):\n%s\n", r.idx, r.exit, tail(r.output, 2500))
			}
		}
		if len(fails) == 0 {
			if cf, ok := readCrashCase(r.dir); ok {
				if path, confirmed := confirmCrash(bin, work, r.idx, cf, r.output); confirmed {
					fmt.Printf("shard %d died (exit %d) while evaluating %s; the case kills a fresh process as well\n", r.idx, r.exit, cf.Check)
					fails = []string{path}
				} else {
					infra = fmt.Sprintf("shard %d exited %d while evaluating %s, but the case does not reproduce in a fresh process (inconclusive):\n%s", r.idx, r.exit, cf.Check, tail(r.output, 3000))
					continue
				}
			}
		}
		if len(fails) == 0 {
			infra = fmt.Sprintf("shard %d exited %d without a replay file:\n%s", r.idx, r.exit, tail(r.output, 3000))
			continue
		}
		for _, f := range fails {
			b, err := os.ReadFile(f)
			if err != nil {
				continue
			}
			var rf replayFile
			if json.Unmarshal(b, &rf) != nil {
				continue
			}
			key := rf.Check + string(rf.Args)
			if seenFail[key] {
				continue
			}
			seenFail[key] = true
			os.MkdirAll(regDir, 0o755)
			name := fmt.Sprintf("%s-%s-%016x.json", id, sanitize(strings.TrimPrefix(rf.Check, id+".")), fnv64(b))
			dst := filepath.Join(regDir, name)
			if err := os.WriteFile(dst, b, 0o644); err != nil {
				fatal2("write %s: %v", dst, err)
			}
			violations++
			fmt.Printf("%s: %s\n", rf.Check, firstLines(rf.Message, 6))
			rel, err := filepath.Rel(root, dst)
			if err != nil || strings.HasPrefix(rel, "..") {
				rel = dst
			}
			violationLines = append(violationLines, fmt.Sprintf("VIOLATION property=%s replay=%s", id, rel))
		}
	}

	// 2b. bounded native fuzzing (thorough tier only; skipped once a violation is known)
	var fuzzNotes []map[string]any
	if tier == "thorough" && violations == 0 && infra == "" {
		for _, fz := range p.Fuzz {
			note, fails, ferr := runFuzz(work, fz, id)
			fuzzNotes = append(fuzzNotes, note)
			if ferr != "" {
				infra = ferr
			}
			for _, f := range fails {
				b, err := os.ReadFile(f)
				if err != nil {
					continue
				}
				var rf replayFile
				if json.Unmarshal(b, &rf) != nil {
					continue
				}
				os.MkdirAll(regDir, 0o755)
				name := fmt.Sprintf("%s-%s-%016x.json", id, sanitize(strings.TrimPrefix(rf.Check, id+".")), fnv64(b))
				dst := filepath.Join(regDir, name)
				if err := os.WriteFile(dst, b, 0o644); err != nil {
					fatal2("write %s: %v", dst, err)
				}
				violations++
				fmt.Printf("%s (native fuzz %s): %s\n", rf.Check, fz.Target, firstLines(rf.Message, 6))
				rel, err := filepath.Rel(root, dst)
				if err != nil || strings.HasPrefix(rel, "..") {
					rel = dst
				}
				violationLines = append(violationLines, fmt.Sprintf("VIOLATION property=%s replay=%s", id, rel))
			}
		}
	}

	// 3. merge statistics and write evidence
	ev := mergeEvidence(id, p, tier, seed, results, hooks, replayed, violations, time.Since(start).Seconds())
	if ev != nil && len(fuzzNotes) > 0 {
		ev["coverage"].(map[string]any)["native_fuzz"] = fuzzNotes
	}
	if ev != nil && len(knownLines) > 0 {
		ev["coverage"].(map[string]any)["known_findings_reported"] = knownLines
	}
	if ev != nil {
		b, _ := json.MarshalIndent(ev, "", " ")
		os.MkdirAll(filepath.Join(root, "evidence"), 0o755)
		if err := os.WriteFile(filepath.Join(root, "evidence", id+".json"), append(b, '\n'), 0o644); err != nil {
			fatal2("write evidence: %v", err)
		}
	}

	for _, l := range knownLines {
		fmt.Println(l)
	}
	if violations > 0 {
		for _, l := range violationLines {
			fmt.Println(l)
		}
		return 1
	}
	if infra != "" {
		fmt.Printf("INFRASTRUCTURE: %s\n", infra)
		return 2
	}
	if ev == nil {
		fmt.Println("INFRASTRUCTURE: no statistics produced")
		return 2
	}
	cov := ev["coverage"].(map[string]any)
	fmt.Printf("OK property=%s tier=%s seed=%d evaluations=%v distinct_nontrivial=%v wall=%.1fs\n", id, tier, seed, cov["evaluations"], cov["distinct_nontrivial"], time.Since(start).Seconds())
	return 0
}

func firstLines(s string, n int) string {
	ls := strings.Split(s, "\n")
	if len(ls) > n {
		ls = ls[:n]
	}
	return strings.Join(ls, "\n")
}

func sanitize(s string) string {
	var b strings.Builder
	for _, r := range s {
		if r >= 'a' && r <= 'z' || r >= 'A' && r <= 'Z' || r >= '0' && r <= '9' {
			b.WriteRune(r)
		} else {
			b.WriteByte('_')
		}
	}
	return b.String()
}

func fnv64(b []byte) uint64 {
	h := uint64(0xcbf29ce484222325)
	for _, c := range b {
		h ^= uint64(c)
		h *= 0x100000001b3
	}
	return h
}

func mergeEvidence(id string, p propSpec, tier string, seed uint64, results []shardResult, hooks bool, replayed, violations int, wall float64) map[string]any {
	type agg struct {
		evals, nt int64
		classes   map[string]int64
		excluded  map[string]int64
		notes     map[string]any
		exhaust   bool
		samples   []struct {
			H    uint64
			Case any
		}
	}
	subs := map[string]*agg{}
	var hashes []uint64
	var total int64
	any1 := false
	for _, r := range results {
		b, err := os.ReadFile(filepath.Join(r.dir, "stats.json"))
		if err != nil {
			continue
		}
		var ss []subStat
		if json.Unmarshal(b, &ss) != nil {
			continue
		}
		for _, s := range ss {
			if s.Prop != id {
				continue
			}
			any1 = true
			a := subs[s.Sub]
			if a == nil {
				a = &agg{classes: map[string]int64{}, excluded: map[string]int64{}, notes: map[string]any{}}
				subs[s.Sub] = a
			}
			a.evals += s.Evals
			a.nt += s.NTCount
			total += s.Evals
			for k, v := range s.Classes {
				a.classes[k] += v
			}
			for k, v := range s.Excluded {
				a.excluded[k] += v
			}
			for k, v := range s.Notes {
				if f, ok := v.(float64); ok {
					if old, ok := a.notes[k].(float64); !ok || f > old {
						a.notes[k] = f
					}
				} else {
					a.notes[k] = v
				}
			}
			a.exhaust = a.exhaust || s.Exhaust
			for _, sm := range s.Samples {
				a.samples = append(a.samples, struct {
					H    uint64
					Case any
				}{sm.H, sm.Case})
			}
			if s.HashFile != "" {
				hb, err := os.ReadFile(filepath.Join(r.dir, s.HashFile))
				if err == nil {
					for i := 0; i+8 <= len(hb); i += 8 {
						hashes = append(hashes, binary.LittleEndian.Uint64(hb[i:]))
					}
				}
			}
		}
	}
	if !any1 {
		return nil
	}
	sort.Slice(hashes, func(i, j int) bool { return hashes[i] < hashes[j] })
	distinct := int64(0)
	for i, h := range hashes {
		if i == 0 || h != hashes[i-1] {
			distinct++
		}
	}
	names := make([]string, 0, len(subs))
	for k := range subs {
		names = append(names, k)
	}
	sort.Strings(names)
	var subOut []map[string]any
	var samples []any
	exclTotal := map[string]int64{}
	for _, n := range names {
		a := subs[n]
		sort.Slice(a.samples, func(i, j int) bool { return a.samples[i].H < a.samples[j].H })
		m := map[string]any{"sub_check": n, "evaluations": a.evals, "nontrivial": a.nt}
		if len(a.classes) > 0 {
			m["classes"] = a.classes
		}
		if len(a.excluded) > 0 {
			m["excluded_by_known_finding"] = a.excluded
			for k, v := range a.excluded {
				exclTotal[k] += v
			}
		}
		if len(a.notes) > 0 {
			m["notes"] = a.notes
		}
		if a.exhaust {
			m["exhaustive"] = true
		}
		subOut = append(subOut, m)
		lim := 3
		var last uint64
		for i, sm := range a.samples {
			if i > 0 && sm.H == last {
				continue
			}
			last = sm.H
			if lim == 0 {
				break
			}
			lim--
			samples = append(samples, map[string]any{"sub_check": n, "case": sm.Case})
		}
	}
	cov := map[string]any{
		"evaluations":          total,
		"distinct_nontrivial":  distinct,
		"rule":                 p.Rule,
		"samples":              samples,
		"sub_checks":           subOut,
		"shards":               len(results),
		"regressions_replayed": replayed,
		"hooks_built":          hooks,
	}
	if len(exclTotal) > 0 {
		cov["excluded_by_known_finding"] = exclTotal
	}
	ev := map[string]any{
		"property_id": id,
		"tier":        tier,
		"seed":        seed,
		"level":       "exploration",
		"coverage":    cov,
		"assumptions": p.Assumptions,
		"wall_s":      wall,
		"violations":  violations,
	}
	return ev
}

// runFuzz runs one native fuzz target for its wall budget. It returns a note
// for the evidence file, the replay files written by failing checks, and an
// infrastructure error message (empty when the run was clean or found a failure).
func runFuzz(work string, fz fuzzSpec, id string) (map[string]any, []string, string) {
	dir := filepath.Join(work, "fuzz-"+fz.Target)
	os.MkdirAll(dir, 0o755)
	ctx, cancel := context.WithTimeout(context.Background(), time.Duration(fz.Seconds+180)*time.Second)
	defer cancel()
	cmd := exec.CommandContext(ctx, "go", "test", "-vet=off", "-tags", "verif", "-run", "^$", "-fuzz", "^"+fz.Target+"$",
		"-fuzztime", fmt.Sprintf("%ds", fz.Seconds), "-fuzzminimizetime", "5s", ".")
	cmd.Dir = filepath.Join(root, "harness")
	cmd.Env = append(goEnv, "VERIF_OUT="+dir, "VERIF_KNOWN="+filepath.Join(root, "KNOWN_FINDINGS.txt"), "VERIF_TIER=thorough")
	out, err := cmd.CombinedOutput()
	// crashers that Go stores in the package directory are not needed: the check wrote its own replay file
	os.RemoveAll(filepath.Join(root, "harness", "testdata", "fuzz", fz.Target))
	os.Remove(filepath.Join(root, "harness", "testdata", "fuzz"))
	os.Remove(filepath.Join(root, "harness", "testdata"))
	note := map[string]any{"target": fz.Target, "seconds": fz.Seconds}
	execs := int64(0)
	for _, line := range strings.Split(string(out), "\n") {
		if i := strings.Index(line, "execs: "); i >= 0 {
			var n int64
			fmt.Sscanf(line[i+7:], "%d", &n)
			if n > execs {
				execs = n
			}
		}
	}
	note["executions"] = execs
	fails, _ := filepath.Glob(filepath.Join(dir, "fail-*.json"))
	if err != nil && len(fails) == 0 {
		note["result"] = "inconclusive"
		return note, nil, fmt.Sprintf("native fuzz target %s failed without a replay file:\n%s", fz.Target, tail(out, 2000))
	}
	if len(fails) > 0 {
		note["result"] = "failure found"
	} else {
		note["result"] = "nothing found within the budget"
	}
	return note, fails, ""
}
