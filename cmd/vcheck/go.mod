module verif/vcheck

go 1.23
