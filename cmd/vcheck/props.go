package main

// propSpec is the driver-side description of one property's check.
type propSpec struct {
	QuickShards    int
	ThoroughShards int
	Race           bool
	Rule           string
	Assumptions    []string
	Fuzz           []fuzzSpec // native fuzz targets, thorough tier only
}

type fuzzSpec struct {
	Target  string
	Seconds int
}

var commonAssumptions = []string{
	"math/big integer and rational arithmetic is correct (the exact reference model is built on it)",
	"the harness reads and writes Decimal values through their 16-byte memory image (word order detected at start-up)",
	"sampling, not enumeration: absence of a violation is evidence, not proof, except for sub-checks marked exhaustive",
}

var props = map[string]propSpec{
	"C02": {
		QuickShards: 8, ThoroughShards: 16,
		Fuzz:        []fuzzSpec{{"FuzzC02MulQuo", 60}},
		Rule:        "rapid draws operand pairs for Mul/Quo (independent; both coefficients below 2^64; exact-tie products 5^k*u x 2^(k-1)*v; near-tie products and quotients built with modular inverses so that the exact result is cr + 1/2 -/+ tiny; terminating quotients with divisors 2^a*5^b; extreme-word divisors; zero operands) with exponents steered to the flush/subnormal and overflow windows; every pair is evaluated under 6 modes and 6 DefaultRoundingMode values against the exact product / rational quotient rounded by ref.RoundX with the flush rule. Non-trivial = result not exactly representable, or flushed, or overflowing; distinct = distinct (x bits, y bits, op).",
		Assumptions: commonAssumptions,
	},
	"C03": {
		QuickShards: 8, ThoroughShards: 16,
		Fuzz:        []fuzzSpec{{"FuzzC03QuoRem", 60}},
		Rule:        "rapid draws (x, y) for QuoRem with exponent gaps -40..60 (every scaling arm), gaps up to 12287 (quotients with thousands of digits), x = k*y + delta units, same value in another cohort +/- 1 unit, 64-bit fast-path operands, zero dividends and the special classes of the statement; 6 modes each; oracle = big.Int QuoRem at the common exponent (remainder exact, quotient exact or RoundX). Non-trivial = non-zero integer quotient; distinct = distinct (x bits, y bits).",
		Assumptions: commonAssumptions,
	},
	"C04": {
		QuickShards: 8, ThoroughShards: 16,
		Fuzz:        []fuzzSpec{{"FuzzC04Order", 45}},
		Rule:        "rapid draws triples (x, y, z): arbitrary patterns, near-equal values re-encoded in other cohort members +/- one unit at every exponent gap 0..35, zeros/Inf/NaN mixes, equal-length magnitudes; all 9 ordered pairs are checked for Cmp, CmpAbs, Equal, Compare, Min, Max against the exact order, plus IsZero/Sign and transitivity on the triple. Non-trivial = x and y finite, non-zero, same sign and within a factor 10 (scaled coefficients must be compared); distinct = distinct bit triple.",
		Assumptions: commonAssumptions,
	},
	"C08": {
		QuickShards: 8, ThoroughShards: 16,
		Fuzz:        []fuzzSpec{{"FuzzC08Quantise", 45}},
		Rule:        "rapid draws (d, dp): dp near d's own digit positions, -7000..7000, threshold windows (+-6111, +-6145, +-6176), int extremes (MinInt, MaxInt, int32 bounds); tie/near-tie constructor at the rounding position incl. carry chains; values at the top of the range. Round under 6 modes (with the below-one-tenth-quantum flush rule), Ceil, Floor, the four package functions, idempotence, distance <= one quantum, specials unchanged; oracle = exact integer quantisation. Non-trivial = at least one non-zero digit is dropped; distinct = distinct (bits, dp).",
		Assumptions: commonAssumptions,
	},
	"C12": {
		QuickShards: 8, ThoroughShards: 16,
		Fuzz:        []fuzzSpec{{"FuzzC12Binary", 45}},
		Rule:        "rapid draws 128-bit patterns (uniform, structured finite, zeros, NaN/Inf with payload/garbage); MarshalBinary bytes are decoded by an independent BID decoder and compared with Decompose and String (routes that do not involve MarshalBinary), re-encoded by an independent encoder, round-tripped bit for bit from both the Decimal side and the byte side; byte slices of length 0..64 for the length rule; hand-computed IEEE vectors pin the independent codec. Every decoding call is made on a receiver whose earlier contents are a pure function of the case (zero value, all ones, -Cmax*10^6111, +Inf or arbitrary bits): the stored result must not depend on them. Every byte slice the package returns is checked to belong to the caller: two results held at once share no memory, and overwriting one does not change what the next call returns. Non-trivial = coefficient above 2^64, steering form, or special with payload bits / length != 16; distinct = distinct pattern.",
		Assumptions: commonAssumptions,
	},
	"C14": {
		QuickShards: 8, ThoroughShards: 16,
		Fuzz:        []fuzzSpec{{"FuzzC14Compose", 60}},
		Rule:        "rapid draws Decimals with nil/short/reusable buffers for Decompose->Compose round trips, and arbitrary parts (form 0..255, sign, coefficient bytes c*10^z+small up to ~400 bytes with leading zero bytes, int32 exponents incl. extremes and compensation windows); oracle: representable iff the exact value has a format member (RoundX toward zero == away), then Compose must return exactly it, otherwise an error. Every decoding call is made on a receiver whose earlier contents are a pure function of the case (zero value, all ones, -Cmax*10^6111, +Inf or arbitrary bits): the stored result must not depend on them. Every byte slice the package returns is checked to belong to the caller: two results held at once share no memory, and overwriting one does not change what the next call returns. Coefficient slices are also zero-padded to 16/17/24/32/33/34/40/64/100 bytes and by 1..48 bytes (the slice length, not the value, selects Compose's path). Non-trivial = coefficient longer than 16 bytes or exponent outside -6176..6111 (parts), coefficient above 2^64 (round trip); distinct = distinct arguments.",
		Assumptions: commonAssumptions,
	},
	"C11": {
		QuickShards: 8, ThoroughShards: 16,
		Rule:        "rapid draws New(sig, exp) with sig over int64 (bounds, powers of ten, digit patterns, uniform) and exp over -7000..7000, windows around -6176-25..-6176+20 and 6111-5..6111+45, +-13000 and int extremes; Ldexp(frac, exp) with finite frac over the full range and exp steered so that frac's exponent + exp lands in the subnormal/overflow windows even when exp alone is out of range; Frexp over all patterns. Oracle: exact sig*10^exp / frac*10^exp rounded nearest-even with the 1e-6177 flush rule; Frexp: 0.1<=|frac|<1, frac*10^e == d exactly, Ldexp(Frexp(d)) has d's value. Wherever the statement promises an exact result (no rounding needed), the call is repeated under the five non-default values of DefaultRoundingMode and must give the same value. A 'top band' class draws the first k digits of the largest coefficient +- a little at exponent 6111+(35-k), where the exponent excess has to be moved into the coefficient and the result is finite only just. Non-trivial = result clamped/rounded/compensated (New, Ldexp) or finite non-zero argument (Frexp); distinct = distinct arguments.",
		Assumptions: commonAssumptions,
	},
	"C10": {
		QuickShards: 8, ThoroughShards: 16,
		Rule:        "rapid draws (a) int64/uint64 values incl. all type bounds for the four exact constructors, (b) big.Int up to 21k bits (random bits <=128/129..256/>256, c*10^k with tie patterns through the 1e18-step reduction, the overflow threshold, powers of two) for FromInt, (c) Decimals near every type bound at scales 0..15, fractions just below an integer, values in (-1,1), huge exponents for Int (nil and pre-loaded receiver) and Int64/Int32/Uint64/Uint32 against exact truncation, (d) Decimals for Rat and the FromRat(Rat(d)) round trip, (e) rationals from digit strings <=34 digits (correct rounding) and from the big.Int generator (2e-33 relative tolerance, neighbours at the edges of the range). Wherever the statement promises an exact result (no rounding needed), the call is repeated under the five non-default values of DefaultRoundingMode and must give the same value. Non-trivial = case near a type bound / beyond 2^128 / non-integer / coefficient beyond 113 bits / any rational; distinct = distinct arguments.",
		Assumptions: commonAssumptions,
	},
	"C09": {
		QuickShards: 8, ThoroughShards: 16,
		Rule:        "rapid draws float64/float32 bit patterns (uniform words, subnormals, 2^k and 2^k(1+2^-52) for every binary exponent, small mantissas, decimal-looking values, top binades, specials) for FromFloat64/32 against the exact binary value rounded nearest-even, plus the Float64/Float32 round trip; Decimals dense in the float range, built next to exact float values and to midpoints between adjacent floats (approached from both sides to the 34th digit), exactly representable values and range edges, for Float64/Float32 against the two neighbouring floats computed with big.Rat; Float at precisions 1..400 with nil and pre-loaded receivers (2^(1-prec) bound, correct rounding from 114 bits); FromFloat of big.Floats with mantissas up to 600 bits and binary exponents up to +-21500 (2e-33 relative, neighbours at the range edges). A sweep checks FromFloat32(f).Float32()==f on a strided sample (quick) or all 2^32 patterns (thorough, sub-check marked exhaustive). Wherever the statement promises an exact result (no rounding needed), the call is repeated under the five non-default values of DefaultRoundingMode and must give the same value. Non-trivial = inexact conversion; distinct = distinct argument bits.",
		Assumptions: append([]string{"math/big.Rat.Float64/Float32 return the nearest float and an exactness flag (used only to find the two neighbouring floats)"}, commonAssumptions...),
	},
	"C05": {
		QuickShards: 8, ThoroughShards: 16,
		Fuzz:        []fuzzSpec{{"FuzzC05Parse", 90}},
		Rule:        "rapid draws (i) literals from the documented grammar: sign, digit runs of 1..450 digits (thorough: occasionally 32k-70k digits or leading-zero runs of that length), ties and near-ties after the 34th/35th digit, the 38/39-digit accumulation cut-off, '.' at every position, '_' between digits, exponents with sign/leading zeros/separators steered to the subnormal, flush and overflow windows and to huge magnitudes, NaN/Inf/Infinity in random case; runs of up to 1.1 million zeros cancelled by the written exponent (moderate values whose digit count and exponent both exceed 16- and 20-bit counters); each is parsed under all 6 DefaultRoundingMode values by Parse, MustParse, UnmarshalText and fmt.Sscan and compared with an independent numeral evaluator + RoundX, incl. the ErrRange/Inf rule; (ii) invalid strings: random bytes, random strings over the literal alphabet, a fixed list of near-misses, and 1-2 byte mutations of valid literals, classified by an independent recogniser: must give ErrSyntax (MustParse panics). Every decoding call is made on a receiver whose earlier contents are a pure function of the case (zero value, all ones, -Cmax*10^6111, +Inf or arbitrary bits): the stored result must not depend on them. Non-trivial = literal with more than 35 significant digits, or in a clamp window, or with separators, or invalid; distinct = distinct string.",
		Assumptions: append([]string{"signed NaN and doubled underscores are not settled by the statement and are excluded from both the valid and the invalid set (counted as unclaimed-form)", "below 1e-6177 both a signed zero and the directed-mode rounding are accepted"}, commonAssumptions...),
	},
	"C06": {
		QuickShards: 8, ThoroughShards: 16,
		Rule:        "rapid draws 128-bit patterns (uniform, structured finite with every coefficient length and trailing-zero run, values whose leading-digit exponent is around the -4/6 switch, zeros, specials); String, MarshalText, %v, fmt.Sprint, Decimal.Append(nil or prefix, \"v\"), Format/Append('g'/'G',-1), ('e'/'E',-1) and ('f',-1) are compared byte for byte with strings constructed from the decoded (digits, exponent) by the rule the statement gives, re-read by an independent numeral evaluator, and round-tripped through Parse, UnmarshalText and fmt.Sscan (Equal, same sign; class for NaN/Inf). 'f' at |exponent| >= 300 is sampled at 1/50. Every decoding call is made on a receiver whose earlier contents are a pure function of the case (zero value, all ones, -Cmax*10^6111, +Inf or arbitrary bits): the stored result must not depend on them. Every byte slice the package returns is checked to belong to the caller: two results held at once share no memory, and overwriting one does not change what the next call returns. Non-trivial = at least two significant digits; distinct = distinct pattern.",
		Assumptions: commonAssumptions,
	},
	"C07": {
		QuickShards: 8, ThoroughShards: 16,
		Fuzz:        []fuzzSpec{{"FuzzC07Format", 60}},
		Rule:        "rapid draws (finite Decimal, spec) with every subset of the flags + - # space 0 in random order, width absent/1..40, precision absent/0..40/'.', verbs eEfFgG; values are built to tie, nearly tie or carry exactly at the digit the spec selects (incl. the empty kept prefix), to sit at the %g switch-over, to be exact float64 images, zeros, or arbitrary. Checked: (1) fmt.Sprintf equals a reference port of fmt/strconv layout over the exact digits, (2) equals fmt's output for the float64 holding the same value where one exists, (3) Decimal.Append with nil / empty-with-capacity / non-empty buffers equals prefix+Sprintf and leaves the caller's bytes alone, (4) package Format/Append agree with the flag-less spec. A separate sub-check validates the reference port against the installed fmt on float64. Non-trivial = rounding drops a digit or a flag/width changes the output; distinct = distinct (bits, spec, buffer shape).",
		Assumptions: append([]string{"the installed toolchain's fmt (go1.23) is the reference for layout, as the property states; the reference port is re-validated against it on every run"}, commonAssumptions...),
	},
	"C13": {
		QuickShards: 8, ThoroughShards: 16,
		Fuzz:        []fuzzSpec{{"FuzzC13UnmarshalJSON", 60}},
		Rule:        "rapid draws Decimals (all patterns, values around the -6/20 switch of the JSON form) for MarshalJSON: the output must match an RFC 8259 number recogniser, denote the value exactly (independent numeral evaluator), carry no superfluous digits, and round-trip directly and through encoding/json inside a struct, slice, map and pointer; NaN/Inf must give *json.UnsupportedValueError. For UnmarshalJSON: RFC 8259 numbers from a grammar (ties after the 34th digit, long digit strings, exponents in the clamp windows and beyond int16), under a drawn DefaultRoundingMode, must give the same Decimal as Parse and as the independent literal evaluator (error when the value is out of range), directly and inside documents; null leaves the receiver untouched; JSON strings/bools/arrays/objects must be errors; arbitrary bytes and Go float syntax must not panic and, if accepted, must store what Parse gives. Every decoding call is made on a receiver whose earlier contents are a pure function of the case (zero value, all ones, -Cmax*10^6111, +Inf or arbitrary bits): the stored result must not depend on them. Every byte slice the package returns is checked to belong to the caller: two results held at once share no memory, and overwriting one does not change what the next call returns. Non-trivial = exponent-form output or >= 20 digits (marshal), any number or non-number JSON value (unmarshal); distinct = distinct input.",
		Assumptions: append([]string{"encoding/json is the reference for JSON validity of whole documents; byte strings that are not JSON values are outside the statement's 'non-numbers' and only the no-panic/no-wrong-value clauses apply"}, commonAssumptions...),
	},
	"C15": {
		QuickShards: 8, ThoroughShards: 16,
		Rule:        "sub-check class-product enumerates completely, for each of the 36 operations in the table (arithmetic with and without mode, QuoRem, Pow, Min/Max, roots, the eight exp/log functions, rounding functions, sign/scale operations, float64 round trip), every pair of 65 operand-class representatives (NaN canonical/signed/payload/signalling/all-ones, +-Inf canonical and with garbage bits, +-0 at four exponents, +-1 in three cohorts, fractions, half-integers, odd/even/large integers): result class (NaN, +-Inf, +-0, +-finite) against the corresponding float64 operation, NaN operands propagated bit for bit, invalid-operation NaNs carrying Payload = Op(class[, class]). Sub-check special repeats this on rapid-drawn members of each class (random cohort members, payloads, garbage bits, dyadic fractions, large exact integers). Sub-check predicates: IsNaN/IsInf/IsZero/Signbit against the independent decoder on generated patterns. Non-trivial = at least one special (NaN/Inf/zero) operand or special pattern; distinct = distinct (operation, operand bits).",
		Assumptions: append([]string{"Go's math package is the reference for special-case results (as the property states), except Min/Max with a NaN operand where the property itself says NaN"}, commonAssumptions...),
	},
	"C19": {
		QuickShards: 8, ThoroughShards: 16,
		Rule:        "sub-check cohort: rapid draws an operation from a table of 56 entry points (arithmetic with and without mode, QuoRem, Pow, comparisons, Min/Max, sign operations, Canonical, rounding with random dp and mode, roots, the eight exp/log functions, Frexp/Ldexp, predicates, all float/integer/rational conversions, String/MarshalText/MarshalJSON/%v, Sprintf and Decimal.Append with random specs, Format/Append with random verb and precision, Decompose) and operands together with a second encoding of each operand's value (another cohort member, a zero with another exponent, NaN with another payload, Inf with other garbage bits); the operation is evaluated on (x,y), (x',y), (x,y'), (x',y') under a drawn DefaultRoundingMode (half of the cases nearest-even, half one of the other five) and all results must agree in class, sign, exact value (strings byte for byte, conversion results and ok flags identically, payload strings for invalid operations). Sub-check canonical: Equal/sign, idempotence, expected bits computed from the decoded parts (exponent closest to zero over the whole cohort; canonical NaN/Inf/zero), and Canonical(a)==Canonical(b) iff a Equal b. Non-trivial = the two encodings differ in bits; distinct = distinct argument tuple.",
		Assumptions: commonAssumptions,
	},
	"C20": {
		QuickShards: 8, ThoroughShards: 16, Race: true,
		Fuzz:        []fuzzSpec{{"FuzzC20Ops", 120}},
		Rule:        "the harness is built with the race detector. Sub-check call: rapid draws one of 82 exported entry points (every method and function of the package, the fmt.Formatter/Scanner paths through Sprintf/Sscan/Sscanf, encoding paths) with arguments from the all-pattern Decimal generator and hostile scalars (ints 0, +-1, +-35, +-6111, +-6176, +-7000, +-100000, 2^15, 2^16, int and int32 extremes; precisions and widths up to 100001; rounding-mode bytes 0..255 incl. invalid ones; format specs from a grammar and from noise; strings and byte slices of random bytes, mutated literals, 70000-digit numerals, long '_' runs, JSON fragments; arbitrary Compose parts; big.Int/Rat/Float inputs) under a DefaultRoundingMode that may itself be invalid; asserted: no panic except the documented set, and those must panic; inputs (byte slices, big values), DefaultRoundingMode and a string returned earlier are unchanged; the same call twice gives identical bits; every []byte the package returns is overwritten by the harness before the call is repeated (a returned slice must not alias package state); a watchdog reports any evaluation exceeding 120 s with its input. Sub-check exponent-sweep: every entry point on operands at every exponent -6176..6111 (quick: dense within 70 of zero and of both ends, stride 13 elsewhere; thorough: all, marked exhaustive) x 4 coefficient shapes x 2 signs. Sub-check concurrent: a generated list of 2..24 calls is executed by 2..16 goroutines in different orders for 1..3 rounds on shared argument values; every result must equal the sequential one and the race detector must stay silent (a detector abort is recovered from an in-flight case file). Non-trivial = call with a finite non-zero first operand, every concurrent list; distinct = distinct call or list.",
		Assumptions: append([]string{"the Go race detector (happens-before based) reports unsynchronised conflicting accesses that occur in the executed workload; interleavings are not enumerated", "precisions/widths above 100000 are outside the stated domain and are not generated for Format/Append"}, commonAssumptions...),
	},
	"C17": {
		QuickShards: 8, ThoroughShards: 16,
		Rule:        "rapid draws arguments for Sqrt and Cbrt: all patterns, perfect squares/cubes of 1..17 / 1..11-digit integers +-1 unit at exponents of every residue, the Decimals on either side of ((c+1/2)*10^q)^k for full-precision c (about 0.1 ulp from a rounding midpoint), arguments constructed so that the root misses a midpoint by 1e-20..1e-9 ulp (square root: Hensel lifting of w(w+1) = c mod 10^34) or by about 1e-12..1e-9 ulp (cube root: closest vector in a 2-dimensional lattice for (h0+2t)^3 mod 8*10^m; next to the roots 1, 2, 5 x 10^k a closed-form family reaches 1e-17..1e-14 ulp), with the proximity classes 1e-6/1e-9/1e-12/1e-15 ulp counted, subnormal and top-of-range arguments, short coefficients at exponents -60..60; the result r is decided by the statement's own integer test ((c*1e20 -/+ (5e19+1)) * 10^(q-20))^k <= |d| <= ..., with u the format spacing at r; zeros, infinities, NaN and negative arguments per the statement. Non-trivial = argument that is not a perfect power; distinct = distinct (bits, function).",
		Assumptions: commonAssumptions,
	},
	"C16": {
		QuickShards: 8, ThoroughShards: 16,
		Rule:        "one sub-check per function (Exp, Exp2, Exp10, Expm1, Log, Log2, Log10, Log1p); two thirds of the cases under DefaultRoundingMode = nearest-even (where the exactness clause applies), one third under one of the other five modes (one-ulp bound only); zero arguments of any exponent included. rapid draws arguments stratified by decimal magnitude (whole range down to 1e-6176, -40..5, 1e-k scales k=1..70), integers and simple fractions in every cohort, threshold windows on the integer part (14149/14220 for Exp and Expm1; 6211, 20413..20517 and the word boundaries 64/128/192/255 for Exp2; 6111..6178 for Exp10), arguments far beyond the thresholds; for logarithms the full exponent range, 1 +/- j*10^-k (k = 1..34), exact powers of two and ten in every cohort, every two-leading-digit table slot, the tiny-argument windows of Log1p. Oracle: 512-bit big.Float reference (validated against a 483-row mpmath fixture and identities); the result must lie within one unit in the last place of the format at the true value (decided on integers in 1e-6 ulp units), be +Inf only when the true result is within one ulp of the largest Decimal, and be exact for the representable results the statement lists. The maximum observed error per function is reported in notes. Non-trivial = every in-domain non-zero argument; distinct = distinct (function, bits).",
		Assumptions: append([]string{"math/big.Float arithmetic at 512 bits (about 450 bits effective after argument reduction) is the reference; results within 1e-6 ulp of the one-ulp bound cannot occur in practice and are not treated specially"}, commonAssumptions...),
	},
	"C18": {
		QuickShards: 8, ThoroughShards: 16,
		Rule:        "rapid draws (x, y): y in {0, 1, -1} in any cohort; x = 10^k in any cohort with non-negative integer y (k*y steered to 6111, 6144, 6145, -6176, -6177) or y = +-1/2; negative x with odd / even / huge integer, half-integer and fractional y; x = 1 +- j*10^-k with |y| ~ 10^k; moderate x with integer, half-integer and arbitrary y; y chosen so that y*log10(x) lands within +-3 of 6144, 6145, -6176, -6177; extreme operands. Each pair under 6 modes and 6 DefaultRoundingMode values. Oracle: shortcut cases exactly as stated (RoundX for the reciprocal, exact powers of ten, NaN for negative base with non-integer exponent, sign (-1)^y); otherwise the 512-bit reference power with tolerance one ulp + |t|*|y|*(4e-37*|ln|x|| + 1e-55); +Inf / zero exactly when the exact power is beyond the range (the tolerance band at the threshold accepts both). The maximum observed error (in ulp and relative to the tolerance) is reported. Non-trivial = general-path pair or a power-of-ten / reciprocal shortcut; distinct = distinct (x bits, y bits).",
		Assumptions: append([]string{"math/big.Float arithmetic at 512 bits (bigfl, validated against an mpmath fixture) is the reference for the general path"}, commonAssumptions...),
	},
	"C01": {
		QuickShards: 8, ThoroughShards: 16,
		Fuzz:        []fuzzSpec{{"FuzzC01AddSub", 60}},
		Rule:        "rapid draws operand pairs (independent; exponent gap -45..45; tie/near-tie constructor at the 34/35-digit boundary; near-cancellation across cohorts; swallowed operand up to gap 12287; zeros; overflow edge) and add/sub; every pair is evaluated under all 6 modes and under all 6 DefaultRoundingMode values against the exact integer sum rounded by ref.RoundX. The kernel enumeration includes, for every k = 1..35, the first k digits of the largest coefficient (+-1) at the exponents where the excess is absorbed exactly. Non-trivial = the exact sum is not representable (rounding decides) or the operands cancel exactly; distinct = distinct (x bits, y bits, op).",
		Assumptions: commonAssumptions,
	},
}
