package main

// propSpec is the driver-side description of one property's check.
type propSpec struct {
	QuickShards    int
	ThoroughShards int
	Race           bool
	Rule           string
	Assumptions    []string
	Fuzz           []fuzzSpec // native fuzz targets, thorough tier only
}

type fuzzSpec struct {
	Target  string
	Seconds int
}

var commonAssumptions = []string{
	"math/big integer and rational arithmetic is correct (the exact reference model is built on it)",
	"the harness reads and writes Decimal values through their 16-byte memory image (word order detected at start-up)",
	"sampling, not enumeration: absence of a violation is evidence, not proof, except for sub-checks marked exhaustive",
}

var props = map[string]propSpec{
	"C01": {
		QuickShards: 8, ThoroughShards: 16,
		Rule: "rapid draws operand pairs (independent; exponent gap -45..45; tie/near-tie constructor at the 34/35-digit boundary; near-cancellation across cohorts; swallowed operand up to gap 12287; zeros; overflow edge) and add/sub; every pair is evaluated under all 6 modes and under all 6 DefaultRoundingMode values against the exact integer sum rounded by ref.RoundX. Non-trivial = the exact sum is not representable (rounding decides) or the operands cancel exactly; distinct = distinct (x bits, y bits, op).",
		Assumptions: commonAssumptions,
	},
}
