#!/bin/sh
# try_mutant.sh <mutant dir> <property> [tier]  — applies patch.diff to /repo, runs the property's check, reverts.
set -u
M=$(cd "$1" && pwd); P=$2; T=${3:-quick}
cd /verif
[ -z "$(git -C /repo status --porcelain)" ] || { echo "/repo not clean"; exit 2; }
git -C /repo apply "$M/patch.diff" || { echo "patch does not apply"; exit 2; }
mkdir -p /tmp/mutreg
VERIF_REGDIR=/tmp/mutreg ./run.sh "$P" "$T" > /tmp/mut.out 2>&1; rc=$?
git -C /repo checkout -- .
echo "RESULT $M $P $T exit=$rc: $(grep -c '^VIOLATION' /tmp/mut.out) violation lines; $(grep -v '^VIOLATION' /tmp/mut.out | head -2 | cut -c1-300 | tr '\n' '|')"
