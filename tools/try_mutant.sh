#!/bin/sh
# try_mutant.sh <mutant dir> <property> [tier]  — applies patch.diff to /repo, runs the property's check, reverts.
set -u
# MUT_REPO / MUT_VERIF (see tools/mksandbox.sh) redirect it to a scratch worktree and a copy of /verif.
M=$(cd "$1" && pwd); P=$2; T=${3:-quick}
R=${MUT_REPO:-/repo}; V=${MUT_VERIF:-/verif}
cd "$V"
[ -z "$(git -C "$R" status --porcelain)" ] || { echo "$R not clean"; exit 2; }
git -C "$R" apply "$M/patch.diff" || { echo "patch does not apply"; exit 2; }
O=$(mktemp /tmp/mut.XXXXXX); G=$(mktemp -d /tmp/mutreg.XXXXXX)
VERIF_REGDIR=$G ./run.sh "$P" "$T" > "$O" 2>&1; rc=$?
git -C "$R" checkout -- .
echo "RESULT $M $P $T exit=$rc: $(grep -ac '^VIOLATION' "$O") violation lines; $(grep -av '^VIOLATION' "$O" | head -2 | cut -c1-300 | tr '\n' '|')"
rm -rf "$O" "$G"
