#!/bin/sh
# mksandbox.sh <dir> — a scratch worktree of /repo HEAD (<dir>/repo) and a copy of /verif (<dir>/verif) whose harness
# builds against it, so that mutation experiments can run beside other work without touching /repo. Use with
#   MUT_REPO=<dir>/repo MUT_VERIF=<dir>/verif tools/try_mutant.sh …   (or guard_mutants.py / boundary_mutants.py)
# Remove with: git -C /repo worktree remove --force <dir>/repo; rm -rf <dir>
set -eu
D=$1
mkdir -p "$D"
git -C /repo worktree add -q --detach "$D/repo" HEAD
rsync -a --exclude .git --exclude bin --exclude evidence /verif/ "$D/verif/"
mkdir -p "$D/verif/evidence"
sed -i "s#=> /repo#=> $D/repo#" "$D/verif/harness/go.mod"
echo "sandbox ready: MUT_REPO=$D/repo MUT_VERIF=$D/verif"
