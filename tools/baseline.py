#!/usr/bin/env python3
"""Run the repository's suite (guard off) and compare with /root/.vp/BASELINE.json stable_pass."""
import json, subprocess, sys, os
base = json.load(open('/root/.vp/BASELINE.json'))
want = set(base['stable_pass'])
env = dict(os.environ, GOFLAGS='-mod=mod', GOPROXY='off', GOSUMDB='off', GOTOOLCHAIN='local')
tags = sys.argv[1:]  # e.g. -tags verif
p = subprocess.run(['go', 'test'] + tags + ['-json', '-vet=off', '-count=1', '-timeout', '25m', './...'], cwd='/repo', env=env, capture_output=True, text=True)
passed, failed = set(), set()
for line in p.stdout.splitlines():
    try:
        e = json.loads(line)
    except Exception:
        continue
    if 'Test' not in e:
        continue
    name = e['Package'] + '::' + e['Test']
    if e['Action'] == 'pass':
        passed.add(name)
    elif e['Action'] == 'fail':
        failed.add(name)
missing = sorted(want - passed)
print(f"passed={len(passed)} failed={len(failed)} baseline={len(want)} baseline_missing={len(missing)}")
for m in missing[:20]:
    print("  MISSING", m)
for f in sorted(failed)[:20]:
    print("  FAILED", f)
sys.exit(1 if missing else 0)
