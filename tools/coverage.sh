#!/bin/sh
# coverage.sh [test regexp] — statement coverage of /repo's non-test sources under the harness's quick tier (one
# process, default seed). Builds the harness with -cover -coverpkg (plain `go test -coverpkg` does not build this
# package layout), runs it, and lists the library blocks that were never executed. Output under /tmp/verif-cov.
# This is a generator diagnostic, not a check: an unexecuted reachable block means a generator class is missing.
cd "$(dirname "$0")/../harness" || exit 2
export GOFLAGS=-mod=mod GOPROXY=off GOSUMDB=off GOTOOLCHAIN=local
D=/tmp/verif-cov; rm -rf $D; mkdir -p $D/out
go test -c -vet=off -tags verif -cover -coverpkg=github.com/woodsbury/decimal128 -o $D/h.test . || exit 2
(cd $D && VERIF_KNOWN=/verif/KNOWN_FINDINGS.txt VERIF_OUT=$D/out ./h.test -test.run "${1:-^TestC}" -test.timeout 60m -test.coverprofile=$D/cov.out > $D/log.txt 2>&1)
grep -a -E '^(--- FAIL|FAIL|PASS|coverage)' $D/log.txt
python3 "$(dirname "$0")/../tools/uncovered.py" $D/cov.out
