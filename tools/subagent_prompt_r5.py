"""subagent_prompt_r4.py <Cnn> <X> <Y> — brief for a fifth-round sub-agent (changes named X and Y)."""
import json, sys, glob, subprocess, os
pid, X, Y = sys.argv[1:4]
here = os.path.dirname(os.path.abspath(__file__))
prev = []
for d in sorted(glob.glob('/verif/seeded/%s-*/meta.json' % pid)):
    m = json.load(open(d)); prev.append("- " + m.get('summary', '')[:350].replace('\n', ' '))
txt = subprocess.check_output(['python3', os.path.join(here, 'subagent_prompt.py'), pid]).decode()
txt = txt.replace("(call them C and D)", f"(call them {X} and {Y})").replace("C and D should differ", f"{X} and {Y} should differ")
txt = txt.replace("For each change X in {C, D} deliver, under /tmp/wt/out-%s/X/" % pid, "For each change Z in {%s, %s} deliver, under /tmp/wt/out-%s/Z/" % (X, Y, pid))
txt = txt.replace("TestDemo%sX" % pid, "TestDemo%sZ" % pid).replace("for C and D,", f"for {X} and {Y},")
extra = f"""

Earlier rounds already produced the changes listed at the end; do NOT repeat them or close variants of them (same line with another constant, the mirror-image arm of the same edit, the same slip in a sibling function). This round, favour changes of the following kinds where the code allows (pick what fits this property):
 (g) the failing inputs form an extremely thin set that still has a closed-form description: a carry or borrow between two machine words that is dropped or applied twice; a quotient-estimate correction step (the "+1 / -1" after a multi-word division) skipped; a remainder equal to a special value; a coefficient that is an exact multiple of a large power of ten or of two; a digit string ending in a specific pattern;
 (h) the multi-word integer primitives in int.go (add, sub, mul, mul64, div, div10, div10000, div1e8, div1e19, log10, lsh, rsh, twos, msd2, pow2 for uint128/uint192/uint256/uint384) changed so that only particular word patterns (all-ones words, a zero middle word, a value just below a power of two or of ten) go wrong, and so that this property (not a test of the primitive itself) shows it;
 (i) one entry, or one digit, of a lookup table or constant wrong (powers of ten, logarithm tables, thresholds expressed as hexadecimal words);
 (j) which error is returned, when: the error matching (errors.Is against strconv.ErrRange / strconv.ErrSyntax, *json.UnsupportedValueError), an error returned together with a usable value or without one, an error swallowed on one path;
 (k) integer overflow or narrowing (int -> int16/int32, negative shifts, abs of the minimum int) in exponent arithmetic for extreme but legal arguments;
 (l) a performance refactor that is right almost everywhere: a loop unrolled with the wrong tail, a division replaced by a multiplication with a rounded reciprocal, an early exit from an iteration when "converged", a cached value reused after its input changed.
The changes are named {X} and {Y} (directories /tmp/wt/out-{pid}/{X} and /tmp/wt/out-{pid}/{Y}; demo test functions TestDemo{pid}{X} and TestDemo{pid}{Y}). If after a reasonable search (about an hour) you can find only one change that satisfies all the conditions and is not a variant of an earlier one, deliver that one and say so.

Changes already produced for this property:
""" + "\n".join(prev) + "\n"
print(txt + extra)
