#!/bin/sh
# process_mutant.sh <mutant dir> <property> [seeds...] — confirm a sub-agent's change (verify_mutant.sh) and run the
# property's quick check against it in a private sandbox (/tmp/sb-<pid>: worktree of /repo HEAD + fresh copy of /verif),
# so that several of these can run side by side without touching /repo. Prints one line per step.
M=$(cd "$1" && pwd); P=$2; shift 2
SEEDS=${*:-"1 7"}
cd "$(dirname "$0")/.." || exit 2
tools/verify_mutant.sh "$M" | tail -1
S=/tmp/sb-$$
tools/mksandbox.sh $S >/dev/null 2>&1 || { echo "sandbox failed"; exit 2; }
rm -rf $S/verif/.work $S/verif/seeded
for s in $SEEDS; do
	echo "seed=$s $(VERIF_SEED=$s MUT_REPO=$S/repo MUT_VERIF=$S/verif tools/try_mutant.sh "$M" "$P" quick 2>&1 | cut -c1-260)"
done
git -C /repo worktree remove --force $S/repo >/dev/null 2>&1; rm -rf $S
