"""subagent_prompt_r4.py <Cnn> <X> <Y> — brief for a sixth-round sub-agent (changes named X and Y)."""
import json, sys, glob, subprocess, os
pid, X, Y = sys.argv[1:4]
here = os.path.dirname(os.path.abspath(__file__))
prev = []
for d in sorted(glob.glob('/verif/seeded/%s-*/meta.json' % pid)):
    m = json.load(open(d)); prev.append("- " + m.get('summary', '')[:260].replace('\n', ' '))
txt = subprocess.check_output(['python3', os.path.join(here, 'subagent_prompt.py'), pid]).decode()
txt = txt.replace("(call them C and D)", f"(call them {X} and {Y})").replace("C and D should differ", f"{X} and {Y} should differ")
txt = txt.replace("For each change X in {C, D} deliver, under /tmp/wt/out-%s/X/" % pid, "For each change Z in {%s, %s} deliver, under /tmp/wt/out-%s/Z/" % (X, Y, pid))
txt = txt.replace("TestDemo%sX" % pid, "TestDemo%sZ" % pid).replace("for C and D,", f"for {X} and {Y},")
extra = f"""

Earlier rounds already produced the (many) changes listed at the end; do NOT repeat them or close variants of them (same line with another constant, the mirror-image arm of the same edit, the same slip in a sibling function or in the sibling reduction kernel). They have used up the obvious places, so read the code paths this property depends on again, end to end, including the helpers in int.go, rounding.go and decomposed.go, and look for what is left. This round, favour (pick what fits this property):
 (m) the change you judge the most likely real regression a maintainer would introduce while optimising, deduplicating or "cleaning up" this code (merging two nearly identical functions into one with a flag, replacing a hand-written loop by a library call such as bits.Len / bits.TrailingZeros / strconv / big.Int methods, hoisting a test out of a loop, reordering special-case tests, replacing a table by a computation or the reverse) where the merged or simplified version is wrong for a narrow class of inputs;
 (n) a documented behaviour in a doc comment of an exported function (read the comments) that stops holding for a narrow class while the typical case still works;
 (o) shared mutable state: a package-level table filled lazily, a cache keyed too coarsely, a buffer or big.Int kept between calls, sync.Once / init order misuse — so that the result depends on which calls happened before or concurrently;
 (p) a value produced by one exported function and consumed by another (Canonical, Frexp, Round, Parse of Format output, Decompose into Compose, UnmarshalBinary of foreign bytes) where the consumer mishandles a shape only that producer (or only foreign data) creates;
 (q) sign handling: negative zero, negative values in a directed rounding mode, the sign of a result that rounds to zero or overflows, abs/negation of the most negative integer;
 (r) the interaction of two limits at once: the largest coefficient at the largest exponent, the smallest subnormal with a tie, a 35-digit coefficient with a 1-digit partner, precision and width both at their extremes.
The changes are named {X} and {Y} (directories /tmp/wt/out-{pid}/{X} and /tmp/wt/out-{pid}/{Y}; demo test functions TestDemo{pid}{X} and TestDemo{pid}{Y}). If after a reasonable search (about an hour) you can find only one change that satisfies all the conditions and is not a variant of an earlier one, deliver that one and say so; if none, say so.

Changes already produced for this property:
""" + "\n".join(prev) + "\n"
print(txt + extra)
