#!/usr/bin/env python3
"""Applies each hand-written mutant of DESIGN.md's M lists to /repo, checks that the repository suite still passes
(optional, --suite), runs the property's quick check, reverts, and prints a table. Patches are also saved to /verif/mutants."""
import subprocess, sys, os, json
M = [
 ("C02-a-div-correction", "C02", "int.go", "	if rem.cmp(o) >= 0 {\n		r = r.add64(1)\n		rem, _ = rem.sub(o)\n	}\n\n	return r, rem\n}\n\nfunc (n uint128) div10()", "	return r, rem\n}\n\nfunc (n uint128) div10()"),
 ("C02-c-fastpath-cond", "C02", "arith.go", "	var sig uint128\n	if dSig[1]|oSig[1] == 0 {\n		sig1, sig0 := bits.Mul64(dSig[0], oSig[0])", "	var sig uint128\n	if dSig[1]&oSig[1] == 0 {\n		sig1, sig0 := bits.Mul64(dSig[0], oSig[0])"),
 ("C02-b-quo-sticky", "C02", "arith.go", "	if rem[0]|rem[1] != 0 {\n		trunc = 1\n	}\n\n	neg := d.Signbit() != o.Signbit()\n	sig, exp = mode.reduce128(neg, sig, exp, trunc)", "	neg := d.Signbit() != o.Signbit()\n	sig, exp = mode.reduce128(neg, sig, exp, trunc)"),
 ("C03-a-rexp-step", "C03", "arith.go", "			rem = rem.mul64(10_000)\n			exp -= 4\n			rexp -= 4\n		}\n\n		for exp > 0 && rem[1] <= 0x18ff_ffff_ffff_ffff {\n			rem = rem.mul64(10)\n			exp--\n			rexp--\n		}\n\n		var tmp uint128\n		tmp, rem = rem.div(oSig)\n\n		if tmp[0]|tmp[1] != 0 {", "			rem = rem.mul64(10_000)\n			exp -= 4\n			rexp -= 3\n		}\n\n		for exp > 0 && rem[1] <= 0x18ff_ffff_ffff_ffff {\n			rem = rem.mul64(10)\n			exp--\n			rexp--\n		}\n\n		var tmp uint128\n		tmp, rem = rem.div(oSig)\n\n		if tmp[0]|tmp[1] != 0 {"),
 ("C04-d-iszero-form2", "C04", "compare.go", None, None),
 ("C09-b-float64-threshold", "C09", "convert.go", "	if exp < -358 {", "	if exp < -350 {"),
 ("C09-c-shift-192", "C09", "convert.go", "		if shift <= 192 {", "		if shift < 192 {"),
 ("C10-a-minint64", "C10", "convert.go", "		if sig[0] > math.MinInt64*-1 {", "		if sig[0] >= math.MinInt64*-1 {"),
 ("C11-b-frexp", "C11", "decimal.go", "	rexp := int(exp) - exponentBias + sig.log10() + 1", "	rexp := int(exp) - exponentBias + sig.log10()"),
 ("C11-a-new-overflow-bound", "C11", "decimal.go", "	if exp > maxUnbiasedExponent+39 {\n		return inf(neg)\n	}\n\n	sig128, exp16", "	if exp > maxUnbiasedExponent+19 {\n		return inf(neg)\n	}\n\n	sig128, exp16"),
 ("C12-a-symmetric-byte-swap", "C12", "binary.go", None, None),
 ("C14-b-exp19", "C14", "compose.go", "			for sig256[3] > 0 {\n				var rem uint64\n				sig256, rem = sig256.div1e19()\n\n				if rem != 0 {\n					return &composeRangeError{}\n				}\n\n				exp += 19", "			for sig256[3] > 0 {\n				var rem uint64\n				sig256, rem = sig256.div1e19()\n\n				if rem != 0 {\n					return &composeRangeError{}\n				}\n\n				exp += 18"),
 ("C14-a-drop-exactness", "C14", "compose.go", "				sig192, rem = sig192.div10000()\n\n				if rem != 0 {\n					return &composeRangeError{}\n				}\n", "				sig192, rem = sig192.div10000()\n				_ = rem\n"),
 ("C06-b-threshold", "C06", "format.go", "		if exp < -4 || exp >= 6 {\n			buf = digs.fmtE(buf, prec, 0, false, false, false, true, false, false, 'e')", "		if exp < -4 || exp > 6 {\n			buf = digs.fmtE(buf, prec, 0, false, false, false, true, false, false, 'e')"),
 ("C13-a-json-threshold", "C13", "json.go", "	if exp < -6 || exp >= 20 {", "	if exp < -6 || exp >= 21 {"),
 ("C15-a-sub-payload-swap", "C15", "arith.go", "				return nan(payloadOpSub, lhs, rhs)", "				return nan(payloadOpSub, rhs, lhs)"),
 ("C15-c-quo-zero-inf-sign", "C15", "arith.go", "		if o.isInf() {\n			return zero(d.Signbit() != o.Signbit())\n		}\n	}\n\n	dSig, dExp := d.decompose()\n	oSig, oExp := o.decompose()\n\n	if oSig[0]|oSig[1] == 0 {\n		if dSig[0]|dSig[1] == 0 {\n			lhs := payloadValPosZero", "		if o.isInf() {\n			return zero(d.Signbit())\n		}\n	}\n\n	dSig, dExp := d.decompose()\n	oSig, oExp := o.decompose()\n\n	if oSig[0]|oSig[1] == 0 {\n		if dSig[0]|dSig[1] == 0 {\n			lhs := payloadValPosZero"),
 ("C17-c-cbrt-exp", "C17", "exp.go", "	dExp -= exp - exp/3", "	dExp -= exp/3*2"),
 ("C19-b-canonical-bound", "C19", "decimal.go", "		if tmp[1] > 0x0002_7fff_ffff_ffff {\n			break\n		}\n\n		sig = tmp\n		exp--", "		if tmp[1] > 0x0001_ffff_ffff_ffff {\n			break\n		}\n\n		sig = tmp\n		exp--"),
 ("C08-c-round-earlyout", "C08", "rounding.go", "	if iexp < dp-maxDigits {\n		return zero(d.Signbit())\n	}\n\n	var trunc int8\n	var digit uint64", "	if iexp < dp-maxDigits+1 {\n		return zero(d.Signbit())\n	}\n\n	var trunc int8\n	var digit uint64"),
 ("C01-b-swallow-test", "C01", "arith.go", "		if exp > maxDigits {\n			if oSig[0]|oSig[1] != 0 {\n				oSig = uint128{}\n				trunc = -1", "		if exp >= maxDigits {\n			if oSig[0]|oSig[1] != 0 {\n				oSig = uint128{}\n				trunc = -1"),
 ("C01-d-tie-parity", "C01", "rounding.go", "					if sig[0]%2 != 0 {\n						adjust = 1\n					}", "					if sig[1]%2 != 0 {\n						adjust = 1\n					}"),
 ("C05-c-two-digit-fastpath", "C05", "scan.go", "							if sawdot {\n								nfrac += 2\n							}", "							if sawdot {\n								nfrac += 1\n							}"),
 ("C05-d-range-without-inf", "C05", "scan.go", "	if exp16 > maxBiasedExponent {\n		return inf(neg), parseNumberRangeError{}\n	}", "	if exp16 > maxBiasedExponent {\n		return zero(neg), parseNumberRangeError{}\n	}"),
 ("C07-b-carry-loop", "C07", "format.go", "		i := prec - 1\n		for i >= 0 && d.dig[i] == '9' {\n			i--\n		}\n\n		if i == -1 {", "		i := prec - 1\n		for i > 0 && d.dig[i] == '9' {\n			i--\n		}\n\n		if i == -1 {"),
 ("C16-b-epow-series", "C16", "decomposed.go", "		sig: uint192{40, 0, 0},\n		exp: 0,\n	}, trunc)\n\n	for i := uint64(39); i > 1; i-- {\n		tmp, _ := d.quo(decomposed192{\n			sig: uint192{i, 0, 0},\n			exp: 0,\n		}, int8(0))\n\n		res, trunc = res.mul(tmp, trunc)\n		res, trunc = res.add1(trunc)\n	}\n\n	res, trunc = res.mul(d, trunc)\n	res, trunc = res.add1(trunc)\n\n	return res.powexp10(exp, trunc)", "		sig: uint192{20, 0, 0},\n		exp: 0,\n	}, trunc)\n\n	for i := uint64(19); i > 1; i-- {\n		tmp, _ := d.quo(decomposed192{\n			sig: uint192{i, 0, 0},\n			exp: 0,\n		}, int8(0))\n\n		res, trunc = res.mul(tmp, trunc)\n		res, trunc = res.add1(trunc)\n	}\n\n	res, trunc = res.mul(d, trunc)\n	res, trunc = res.add1(trunc)\n\n	return res.powexp10(exp, trunc)"),
 ("C18-c-rcp-trunc", "C18", "arith.go", "		res, trunc = res.rcp(trunc)\n		trunc *= -1\n	}\n\n	sig, exp := mode.reduce192(neg, res.sig, res.exp+exponentBias, trunc)", "		res, trunc = res.rcp(trunc)\n	}\n\n	sig, exp := mode.reduce192(neg, res.sig, res.exp+exponentBias, trunc)"),
 ("C10-e-fromint-spurious-sticky", "C10", "convert.go", "				bl = i.BitLen()\n\n				if r.Sign() != 0 {\n					trunc = 1\n				}\n			}\n		}\n\n		ten", "				bl = i.BitLen()\n				trunc = 1\n			}\n		}\n\n		ten"),
 ("C17-d-cbrt-5-iterations", "C17", "exp.go", "	for i := 0; i < 7; i++ {\n		cub, _ := res.mul(res, int8(0))", "	for i := 0; i < 5; i++ {\n		cub, _ := res.mul(res, int8(0))"),
 ("C17-e-cbrt-6-iterations", "C17", "exp.go", "	for i := 0; i < 7; i++ {\n		cub, _ := res.mul(res, int8(0))", "	for i := 0; i < 6; i++ {\n		cub, _ := res.mul(res, int8(0))"),
 ("C20-c-log1p-index", "C20", "exp.go", "		if dExp > int16(-len(uint128PowersOf10)) {", "		if dExp >= int16(-len(uint128PowersOf10)) {"),
]
suite = '--suite' in sys.argv
only = [a for a in sys.argv[1:] if not a.startswith('--')]
rows = []
for name, prop, f, old, new in M:
    if only and name not in only and prop not in only: continue
    path = os.path.join('/repo', f)
    src = open(path).read()
    if name == "C04-d-iszero-form2":
        i = src.index('func (d Decimal) IsZero() bool {'); j = src.index('\n}\n', i) + 1
        print(src[i:j+1]) if '--show' in sys.argv else None
        old = src[i:j+1]
        new = "func (d Decimal) IsZero() bool {\n	return d.lo == 0 && d.hi&0x0000_7fff_ffff_ffff == 0 && !d.isSpecial()\n}"
    if name == "C12-a-symmetric-byte-swap":
        m = src.replace("data[14] = byte(d.lo >> 8)\n	data[15] = byte(d.lo)", "data[15] = byte(d.lo >> 8)\n	data[14] = byte(d.lo)").replace("lo := uint64(data[15])\n	lo |= uint64(data[14]) << 8", "lo := uint64(data[14])\n	lo |= uint64(data[15]) << 8")
        old, new = src, m
    if src.count(old) != 1:
        rows.append((name, prop, "PATCH-DOES-NOT-APPLY(%d)" % src.count(old), "")); continue
    open(path, 'w').write(src.replace(old, new))
    try:
        if subprocess.run(['go', 'build', './...'], cwd='/repo', capture_output=True).returncode != 0:
            rows.append((name, prop, "does-not-compile", "")); continue
        d = subprocess.run(['git', 'diff'], cwd='/repo', capture_output=True, text=True).stdout
        open('/verif/mutants/%s.diff' % name, 'w').write(d)
        st = "-"
        if suite:
            r = subprocess.run(['go', 'test', '-vet=off', '-count=1', './...'], cwd='/repo', capture_output=True, text=True)
            st = "suite-passes" if r.returncode == 0 else "SUITE-FAILS"
        env = dict(os.environ, VERIF_REGDIR='/tmp/mutreg')
        r = subprocess.run(['./run.sh', prop, 'quick'], cwd='/verif', capture_output=True, text=True, env=env)
        first = [l for l in r.stdout.splitlines() if l and not l.startswith('VIOLATION')][:1]
        rows.append((name, prop, st, "exit=%d %s" % (r.returncode, (first[0][:150] if first else ''))))
    finally:
        subprocess.run(['git', 'checkout', '--', '.'], cwd='/repo')
for r in rows: print(" | ".join(r))
json.dump(rows, open('/tmp/own_mutants.json', 'w'))
