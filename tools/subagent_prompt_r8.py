"""subagent_prompt_r8.py <Cnn> <X> <Y> — brief for a ninth-round sub-agent (changes named X and Y)."""
import json, sys, glob, subprocess, os
pid, X, Y = sys.argv[1:4]
here = os.path.dirname(os.path.abspath(__file__))
prev = []
for d in sorted(glob.glob('/verif/seeded/%s-*/meta.json' % pid)):
    m = json.load(open(d)); prev.append("- " + m.get('summary', '')[:200].replace('\n', ' '))
txt = subprocess.check_output(['python3', os.path.join(here, 'subagent_prompt.py'), pid]).decode()
txt = txt.replace("(call them C and D)", f"(call them {X} and {Y})").replace("C and D should differ", f"{X} and {Y} should differ")
txt = txt.replace("For each change X in {C, D} deliver, under /tmp/wt/out-%s/X/" % pid, "For each change Z in {%s, %s} deliver, under /tmp/wt/out-%s/Z/" % (X, Y, pid))
txt = txt.replace("TestDemo%sX" % pid, "TestDemo%sZ" % pid).replace("for C and D,", f"for {X} and {Y},")
extra = f"""

Earlier rounds already produced the changes listed at the end (ten or so for this property); do NOT repeat them or close variants of them (same line with another constant, the mirror-image arm of the same edit, the same slip in a sibling function or sibling reduction kernel, the same kind of table-entry or guard-constant edit at another index). Start by listing for yourself which functions, branches and input classes of this property those changes have NOT touched, then work there. Kinds that earlier rounds used little (pick what fits this property):
 (a) two cooperating sites that each look harmless alone (a helper whose contract is narrowed and a caller that relied on the wider one; a flag set in one place and read in another);
 (b) a path selected by operand ORDER or by which operand is larger / has the larger exponent, broken for one order only (x op y right, y op x wrong);
 (c) coefficients in the extended band above 10^34-1 (35-digit coefficients up to 5*2^111-1), non-canonical cohort members, and coefficients that are exact multiples of a power of ten;
 (d) subnormal results, the flush threshold, results exactly at the smallest subnormal or at the largest finite value, and the step from the largest finite value to infinity in the directed modes;
 (e) the rounding mode reaching an inner call: DefaultRoundingMode read where the explicit mode should be used (or the reverse), the mode not negated/mirrored for a negative operand, a mode-specific arm swapped for a rare class;
 (f) special-case shortcuts (equal operands, an operand that is 1 or a power of ten, an operand that is zero with a particular exponent, integer-valued arguments) that skip a step the general path performs;
 (g) the sign and the exponent of zero results; results that are exactly representable but are produced through the inexact path (or the reverse);
 (h) arguments at the limits of Go types (math.MinInt, math.MaxInt32+1, int64 minimum, nil / empty slices and big.Int values, very long inputs);
 (y) anything else you judge likely and untried.
The changes are named {X} and {Y} (directories /tmp/wt/out-{pid}/{X} and /tmp/wt/out-{pid}/{Y}; demo test functions TestDemo{pid}{X} and TestDemo{pid}{Y}). If after a reasonable search (about an hour) you can find only one change that satisfies all the conditions and is not a variant of an earlier one, deliver that one and say so; if none, say so.

Changes already produced for this property:
""" + "\n".join(prev) + "\n"
print(txt + extra)
