#!/usr/bin/env python3
"""guard_mutants.py [A|B|C|D] [file:line ...] — systematic 'sliver' experiment: every headroom guard `<= 0x18ff_ffff_ffff_ffff` of the
library (the test made before a multi-word accumulator is multiplied by ten once more) is widened, one line at a
time, to the tempting exact limit `<= 0x1999_9999_9999_9999` (which forgets the carry from the lower words, so the
multiplication wraps for significands in a sliver of relative width ~1e-19 just above 2^(64w)/10). For each mutant
the quick checks of the properties that exercise the file are run; prints one line per guard.
Do not run other checks concurrently (they rebuild from /repo's working tree)."""
import subprocess, re, os, sys, json
REPO = os.environ.get('MUT_REPO', '/repo')      # a scratch worktree of /repo and a copy of /verif whose harness/go.mod
VERIF = os.environ.get('MUT_VERIF', '/verif')  # points at it let the experiment run beside other work
FAMILIES = {
 # widen the x10 headroom guard to the tempting exact limit (forgets the carry from the lower words)
 'A': ('<= 0x18ff_ffff_ffff_ffff', '<= 0x1999_9999_9999_9999',
       {'arith.go': ['C01', 'C02', 'C03', 'C18'], 'convert.go': ['C09'], 'decomposed.go': ['C16', 'C17', 'C18'], 'scan.go': ['C05']}),
 # the same for the x10000 guard (2^64/10^4 = 0x0006_8db8_bac7_10cb)
 'B': ('<= 0x0002_7fff_ffff_ffff', '<= 0x0006_8db8_bac7_10cb',
       {'arith.go': ['C01', 'C02', 'C03', 'C18'], 'decomposed.go': ['C16', 'C17', 'C18'], 'rounding.go': ['C01', 'C02', 'C05', 'C08', 'C11']}),
 # off by one on the top word of the largest coefficient: differs only within 2^64 of Cmax
 'C': ('> 0x0002_7fff_ffff_ffff', '>= 0x0002_7fff_ffff_ffff',
       {'rounding.go': ['C01', 'C02', 'C05', 'C08', 'C11'], 'compose.go': ['C14'], 'decimal.go': ['C19']}),
 'D': ('< 0x0002_7fff_ffff_ffff', '<= 0x0002_7fff_ffff_ffff',
       {'rounding.go': ['C01', 'C02', 'C05', 'C08', 'C11']}),
}
fam = 'A'
args = sys.argv[1:]
if args and args[0] in FAMILIES:
    fam = args.pop(0)
PAT, REP, files = FAMILIES[fam]
env = dict(os.environ, VERIF_REGDIR='/tmp/mutreg', GOFLAGS='-mod=mod', GOPROXY='off', GOSUMDB='off', GOTOOLCHAIN='local')
rows = []
only = args
for f, props in files.items():
    path = REPO + '/' + f
    src = open(path).read().split('\n')
    for i, line in enumerate(src):
        if PAT not in line or (PAT.startswith('<') and not PAT.startswith('<=') and '<= ' + PAT[2:] in line): continue
        tag = '%s:%d' % (f, i + 1)
        if only and tag not in only: continue
        # enclosing function
        fn = '?'
        for j in range(i, -1, -1):
            m = re.match(r'func (\([^)]*\) )?(\w+)', src[j])
            if m: fn = m.group(2); break
        mut = list(src); mut[i] = line.replace(PAT, REP)
        open(path, 'w').write('\n'.join(mut))
        try:
            det = []
            for p in props:
                r = subprocess.run(['./run.sh', p, 'quick'], cwd=VERIF, capture_output=True, text=True, env=env)
                if r.returncode == 1: det.append(p)
                elif r.returncode != 0: det.append(p + '(exit %d)' % r.returncode)
            rows.append((tag, fn, ','.join(det) or 'NOT DETECTED'))
            print(' | '.join(rows[-1]), flush=True)
        finally:
            subprocess.run(['git', 'checkout', '--', '.'], cwd=REPO)
subprocess.run(['rm', '-rf', '/tmp/mutreg'])
json.dump(rows, open('/tmp/guard_mutants_%s.json' % fam, 'w'))
