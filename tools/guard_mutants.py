#!/usr/bin/env python3
"""guard_mutants.py — systematic 'sliver' experiment: every headroom guard `<= 0x18ff_ffff_ffff_ffff` of the
library (the test made before a multi-word accumulator is multiplied by ten once more) is widened, one line at a
time, to the tempting exact limit `<= 0x1999_9999_9999_9999` (which forgets the carry from the lower words, so the
multiplication wraps for significands in a sliver of relative width ~1e-19 just above 2^(64w)/10). For each mutant
the quick checks of the properties that exercise the file are run; prints one line per guard.
Do not run other checks concurrently (they rebuild from /repo's working tree)."""
import subprocess, re, os, sys, json
files = {'arith.go': ['C01', 'C02', 'C03', 'C18'], 'convert.go': ['C09'], 'decomposed.go': ['C16', 'C17', 'C18'], 'scan.go': ['C05']}
env = dict(os.environ, VERIF_REGDIR='/tmp/mutreg', GOFLAGS='-mod=mod', GOPROXY='off', GOSUMDB='off', GOTOOLCHAIN='local')
rows = []
only = sys.argv[1:]
for f, props in files.items():
    path = '/repo/' + f
    src = open(path).read().split('\n')
    for i, line in enumerate(src):
        if '<= 0x18ff_ffff_ffff_ffff' not in line: continue
        tag = '%s:%d' % (f, i + 1)
        if only and tag not in only: continue
        # enclosing function
        fn = '?'
        for j in range(i, -1, -1):
            m = re.match(r'func (\([^)]*\) )?(\w+)', src[j])
            if m: fn = m.group(2); break
        mut = list(src); mut[i] = line.replace('<= 0x18ff_ffff_ffff_ffff', '<= 0x1999_9999_9999_9999')
        open(path, 'w').write('\n'.join(mut))
        try:
            det = []
            for p in props:
                r = subprocess.run(['./run.sh', p, 'quick'], cwd='/verif', capture_output=True, text=True, env=env)
                if r.returncode == 1: det.append(p)
                elif r.returncode != 0: det.append(p + '(exit %d)' % r.returncode)
            rows.append((tag, fn, ','.join(det) or 'NOT DETECTED'))
            print(' | '.join(rows[-1]), flush=True)
        finally:
            subprocess.run(['git', 'checkout', '--', '.'], cwd='/repo')
subprocess.run(['rm', '-rf', '/tmp/mutreg'])
json.dump(rows, open('/tmp/guard_mutants.json', 'w'))
