#!/usr/bin/env python3
"""boundary_mutants.py [file:line ...] (MUT_LITERALS=1 for numeric literals instead of named constants) — relational-operator boundary mutation of every comparison against one of the
format's named range constants (maxDigits, exponentBias, max/minBiasedExponent, max/minUnbiasedExponent):
`<` <-> `<=`, `>` <-> `>=`, one site at a time. For each mutant that compiles, the quick checks of the properties
that exercise the file are run. Prints one line per site. Do not run other checks concurrently."""
import subprocess, re, os, sys, json
REPO = os.environ.get('MUT_REPO', '/repo')      # a scratch worktree of /repo and a copy of /verif whose harness/go.mod
VERIF = os.environ.get('MUT_VERIF', '/verif')  # points at it let the experiment run beside other work
FILES = {'arith.go': ['C01', 'C02', 'C03', 'C15', 'C18'], 'compare.go': ['C04', 'C19'], 'compose.go': ['C14'],
         'convert.go': ['C09', 'C10'], 'decimal.go': ['C11', 'C19', 'C15'], 'decomposed.go': ['C16', 'C17', 'C18'],
         'exp.go': ['C16', 'C17', 'C15'], 'rounding.go': ['C01', 'C02', 'C05', 'C08', 'C11'], 'scan.go': ['C05', 'C13']}
CONST = r'-?(?:maxDigits|exponentBias|maxBiasedExponent|minBiasedExponent|maxUnbiasedExponent|minUnbiasedExponent)\b'
RX = re.compile(r'(<=|>=|<|>)( *)(' + CONST + ')')
if os.environ.get('MUT_LITERALS'):
    # second experiment: comparisons against numeric literals (shifts and generic type parameters excluded)
    RX = re.compile(r'(?<![<>])(<=|>=|<|>)( +)(-?(?:0x[0-9a-fA-F_]+|[0-9][0-9_]*)\b)')
    FILES = {'decomposed.go': ['C16', 'C17', 'C18'], 'exp.go': ['C16', 'C17'], 'int.go': ['C02', 'C03', 'C16'], 'arith.go': ['C01', 'C02', 'C03', 'C18'],
             'format.go': ['C06', 'C07'], 'rounding.go': ['C01', 'C02', 'C05', 'C08'], 'convert.go': ['C09', 'C10'], 'compare.go': ['C04'], 'compose.go': ['C14'],
             'decimal.go': ['C11', 'C19'], 'scan.go': ['C05'], 'json.go': ['C13'], 'payload.go': ['C15']}
if os.environ.get('MUT_EXTRA'):
    # second pass over the survivors of the first: the properties that use the file less directly
    FILES = {'decomposed.go': ['C15'], 'exp.go': ['C15', 'C18', 'C19'], 'int.go': ['C01', 'C05', 'C07', 'C14', 'C17'], 'arith.go': ['C15', 'C19', 'C20'],
             'format.go': ['C13', 'C19'], 'rounding.go': ['C11', 'C14', 'C19'], 'convert.go': ['C19', 'C15'], 'compare.go': ['C19', 'C15', 'C08'], 'compose.go': ['C12', 'C19'],
             'decimal.go': ['C15', 'C08', 'C12'], 'scan.go': ['C13', 'C06'], 'json.go': ['C06'], 'payload.go': ['C19']}
if os.environ.get('MUT_FILES'):
    FILES = {f: p for f, p in FILES.items() if f in os.environ['MUT_FILES'].split(',')}
FLIP = {'<': '<=', '<=': '<', '>': '>=', '>=': '>'}
env = dict(os.environ, VERIF_REGDIR='/tmp/mutreg', GOFLAGS='-mod=mod', GOPROXY='off', GOSUMDB='off', GOTOOLCHAIN='local')
only = sys.argv[1:]
if os.environ.get('MUT_SITES'):
    only = open(os.environ['MUT_SITES']).read().split()
rows = []
for f, props in FILES.items():
    path = REPO + '/' + f
    src = open(path).read().split('\n')
    for i, line in enumerate(src):
        if line.lstrip().startswith('//'): continue
        for mi, m in enumerate(RX.finditer(line)):
            tag = '%s:%d%s' % (f, i + 1, '' if mi == 0 else chr(ord('a') + mi))
            if only and tag not in only: continue
            fn = '?'
            for j in range(i, -1, -1):
                mm = re.match(r'func (\([^)]*\) )?(\w+)', src[j])
                if mm: fn = mm.group(2); break
            mut = list(src)
            mut[i] = line[:m.start(1)] + FLIP[m.group(1)] + line[m.end(1):]
            open(path, 'w').write('\n'.join(mut))
            try:
                if subprocess.run(['go', 'build', './...'], cwd=REPO, capture_output=True, env=env).returncode != 0:
                    rows.append((tag, fn, line.strip()[:70], 'does not compile')); continue
                det = []
                for p in props:
                    r = subprocess.run(['./run.sh', p, 'quick'], cwd=VERIF, capture_output=True, text=True, env=env)
                    if r.returncode == 1: det.append(p)
                    elif r.returncode != 0: det.append(p + '(exit %d)' % r.returncode)
                rows.append((tag, fn, line.strip()[:70], ','.join(det) or 'NOT DETECTED'))
                print(' | '.join(rows[-1]), flush=True)
            finally:
                subprocess.run(['git', 'checkout', '--', '.'], cwd=REPO)
subprocess.run(['rm', '-rf', '/tmp/mutreg'])
json.dump(rows, open(os.environ.get('MUT_OUT', '/tmp/boundary_mutants.json'), 'w'))
