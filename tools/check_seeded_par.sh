#!/bin/sh
# check_seeded_par.sh [jobs] [tier] — as check_seeded.sh, but in <jobs> private sandboxes side by side (worktrees of
# /repo HEAD + copies of /verif under /tmp/sbp-*), so /repo itself is never touched. VERIF_SEED is honoured.
# Prints DETECTED/MISSED per change; exit 1 if any is missed.
cd "$(dirname "$0")/.." || exit 2
J=${1:-6}; T=${2:-quick}
ls -d seeded/*/ | sed 's#/$##' > /tmp/sbp-list.$$
split -n l/$J /tmp/sbp-list.$$ /tmp/sbp-part.$$.
for part in /tmp/sbp-part.$$.*; do
	(
		S=/tmp/sbp-$$-$(basename $part)
		tools/mksandbox.sh $S >/dev/null 2>&1 || exit 2
		rm -rf $S/verif/.work $S/verif/seeded
		while read d; do
			id=$(basename "$d"); p=${id%%-*}
			[ -f "$d/check_with" ] && p=$(cat "$d/check_with")
			out=$(MUT_REPO=$S/repo MUT_VERIF=$S/verif tools/try_mutant.sh "$d" "$p" "$T" 2>&1)
			case "$out" in
			*"exit=1:"*) echo "DETECTED $id" ;;
			*) echo "MISSED   $id  $out" | cut -c1-300 ;;
			esac
		done < $part
		git -C /repo worktree remove --force $S/repo >/dev/null 2>&1; rm -rf $S
	) &
done
wait
rm -f /tmp/sbp-list.$$ /tmp/sbp-part.$$.*
