#!/usr/bin/env python3
"""Regenerates /verif/MANIFEST.json from the table below (kept valid at all times)."""
import json, os
ROOT = os.path.dirname(os.path.dirname(os.path.abspath(__file__)))
props = [json.loads(l) for l in open(os.path.join(ROOT, 'properties.jsonl'))]
# property -> (technique, level text, level note, design ref)
CLAIMED = json.load(open(os.path.join(ROOT, 'tools', 'claims.json')))
hooks_commits = [l.strip() for l in open(os.path.join(ROOT, 'tools', 'hook_commits.txt')) if l.strip()] if os.path.exists(os.path.join(ROOT, 'tools', 'hook_commits.txt')) else []
checks, na = [], []
for p in props:
    pid = p['id']
    c = CLAIMED.get(pid)
    if not c:
        na.append({"property_id": pid, "reason": "check not built yet in this session (planned in DESIGN.md section 5); no claim is made"})
        continue
    checks.append({
        "property_id": pid,
        "quick_cmd": f"./run.sh {pid} quick",
        "thorough_cmd": f"./run.sh {pid} thorough",
        "evidence_file": f"/verif/evidence/{pid}.json",
        "replay_cmd_template": "./run.sh replay {path}",
        "engine": "vcheck",
        "level_claimed": {"category": "exploration", "text": c["text"], "design_ref": f"DESIGN.md section 5, {pid}"},
        "level_note": c["note"],
        "technique": c["technique"],
    })
m = {
    "version": 1,
    "setup_cmd": "sh -c 'export GOFLAGS=-mod=mod GOPROXY=off GOSUMDB=off GOTOOLCHAIN=local; mkdir -p bin && (cd cmd/vcheck && go build -o ../../bin/vcheck .) && (cd harness && go test -c -vet=off -tags verif -o /dev/null .)'",
    "hooks": {
        "guard": "verif",
        "enable": "go test -tags verif (the harness is compiled with -tags verif against /repo via a replace directive; verif_export.go in /repo is the only guarded file)",
        "baseline_off_cmd": "cd /repo && go test -vet=off -count=1 ./...",
        "source_commits": hooks_commits,
        "add_only": True,
    },
    "engines": [{
        "name": "vcheck",
        "path": "/verif/cmd/vcheck",
        "serves_properties": [c["property_id"] for c in checks],
        "kind_free_text": "Go driver: rebuilds /verif/harness (rapid v1.3.0 property tests + native fuzz targets, exact big.Int/big.Float reference models) against /repo's working tree, replays saved regressions, runs sharded rapid processes with a seed derived from VERIF_SEED, merges statistics into evidence",
    }],
    "checks": checks,
    "notes": "All checks are generated-input search (property-based testing with pgregory.net/rapid, native go fuzzing in the thorough tier) against explicit oracles; see DESIGN.md. KNOWN_FINDINGS.txt lists repaired (fixed:) and recorded (finding:) genuine defects.",
    "not_applicable": na,
}
json.dump(m, open(os.path.join(ROOT, 'MANIFEST.json'), 'w'), indent=1)
print("claimed", len(checks), "not claimed", len(na))
