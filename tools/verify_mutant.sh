#!/bin/sh
# verify_mutant.sh <mutant dir containing patch.diff and demo_test.go> 
# Confirms in a scratch worktree of /repo HEAD: patch applies; demo passes without the patch; with the patch the
# repository suite still matches the baseline and the demo fails. Prints a one-line verdict. Removes the worktree.
set -u
M=$(cd "$1" && pwd)
export GOFLAGS=-mod=mod GOPROXY=off GOSUMDB=off GOTOOLCHAIN=local
W=$(mktemp -d /tmp/mw.XXXXXX); rmdir "$W"
git -C /repo worktree add -q --detach "$W" HEAD || { echo "VERDICT $M worktree-failed"; exit 2; }
trap 'git -C /repo worktree remove --force "$W" >/dev/null 2>&1; rm -f "$W.out" "$W.fail"' EXIT
cd "$W"
git apply --check "$M/patch.diff" 2>/dev/null || { echo "VERDICT $M patch-does-not-apply"; exit 1; }
cp "$M/demo_test.go" ./zz_demo_test.go
if ! go test -vet=off -count=1 -run 'TestDemo' . >$W.out 2>&1; then echo "VERDICT $M demo-fails-on-clean-tree"; tail -5 $W.out; exit 1; fi
git apply "$M/patch.diff"
if go test -vet=off -count=1 -run 'TestDemo' . >$W.out 2>&1; then echo "VERDICT $M demo-passes-with-patch"; exit 1; fi
rm ./zz_demo_test.go
go test -vet=off -count=1 ./... 2>&1 | grep -E '^--- FAIL' | sort > $W.fail
if [ -s $W.fail ]; then echo "VERDICT $M suite-fails-with-patch: $(cat $W.fail | tr '\n' ' ')"; exit 1; fi
echo "VERDICT $M confirmed"
