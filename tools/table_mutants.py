#!/usr/bin/env python3
"""table_mutants.py — one mutant per entry of the power-of-ten tables in int.go (uint128PowersOf10, uint192PowersOf10):
the entry's low word is lowered by 0xf0000 (as a transposed pair of hex digits would do), so that the table holds
10^k - 983040. Runs the quick checks of the properties that read the tables (log10 -> Frexp, Pow(x, +-Inf), formatting of
the kernels; isOne -> Pow; Log1p's -1 test; add1/add1neg/sub1 -> Expm1, Log1p, Log). MUT_REPO / MUT_VERIF as in
boundary_mutants.py."""
import subprocess, re, os, sys, json
REPO = os.environ.get('MUT_REPO', '/repo'); VERIF = os.environ.get('MUT_VERIF', '/verif')
PROPS = {'uint128PowersOf10': ['C11', 'C15', 'C19', 'C18'], 'uint192PowersOf10': ['C16', 'C18', 'C17']}
env = dict(os.environ, VERIF_REGDIR=os.environ.get('MUT_REGDIR', '/tmp/mutreg-table'), GOFLAGS='-mod=mod', GOPROXY='off', GOSUMDB='off', GOTOOLCHAIN='local')
path = REPO + '/int.go'
src = open(path).read().split('\n')
table = None; k = 0
for i, line in enumerate(src):
    m = re.match(r'\s*(uint1(?:28|92)PowersOf10) = \[\.\.\.\]', line)
    if m: table, k = m.group(1), 0; continue
    if table and line.strip() == '}': table = None; continue
    if not table: continue
    m = re.match(r'(\s*\{)(0x[0-9a-f_]+)(,.*)', line)
    if not m: continue
    low = int(m.group(2).replace('_', ''), 16)
    entry, k = k, k + 1
    if low < 0xf0000 + 1: continue      # 10^0 .. 10^5: no room in the low word
    new = low - 0xf0000
    h = '%016x' % new
    mut = list(src); mut[i] = m.group(1) + '0x' + '_'.join(h[j:j + 4] for j in range(0, 16, 4)) + m.group(3)
    open(path, 'w').write('\n'.join(mut))
    try:
        if subprocess.run(['go', 'build', './...'], cwd=REPO, capture_output=True, env=env).returncode != 0:
            print('%s[%d] | does not compile' % (table, entry), flush=True); continue
        det = []
        for p in PROPS[table]:
            r = subprocess.run(['./run.sh', p, 'quick'], cwd=VERIF, capture_output=True, text=True, env=env)
            if r.returncode == 1: det.append(p)
            elif r.returncode != 0: det.append(p + '(exit %d)' % r.returncode)
        print('%s[%d] | %s' % (table, entry, ','.join(det) or 'NOT DETECTED'), flush=True)
    finally:
        subprocess.run(['git', 'checkout', '--', '.'], cwd=REPO)
subprocess.run(['rm', '-rf', env['VERIF_REGDIR']])
