#!/usr/bin/env python3
"""summarise_boundary.py <pass-1 outputs...> -- <pass-2 outputs...> : writes mutants/boundary-literals.md from the
outputs of tools/boundary_mutants.py (MUT_LITERALS=1; second pass with MUT_EXTRA=1 over the survivors)."""
import sys, re, collections
args = sys.argv[1:]
k = args.index('--') if '--' in args else len(args)
p1, p2 = args[:k], args[k + 1:]
def rows(files):
    out = []
    for f in files:
        for line in open(f):
            parts = [x.strip() for x in line.rstrip('\n').split(' | ')]
            if len(parts) >= 4: out.append(parts)
    return out
first = rows(p1); second = {r[0]: r for r in rows(p2)}
CATS = [
 ('scale-while-there-is-room guards (`<= 0x18ff…`, `<= 0x0002_7fff…`, `>= 0x18ff…`, `>= 0x…ffff`): one unit of the top word more or less pre-scaling changes no result; the lines where one unit *does* matter are families A–D of SENSITIVITY §4', r'0x18ff|0x0002_7fff|0x027f|0x0000_0000_0000_ffff|0x0000_0000_0fff_ffff'),
 ('reduction-arm selection (`> 10000`, `> 0x09c4…`, `> 0x00fa…`, `> 0x0019…`, `n[k] < 10^j` in divN): at the boundary value either arm computes the same quotient and remainder', r'> 10000|0x09c4|0x00fa|0x0019|n\[\d\] < 1'),
 ('step-size selection in alignment loops (`exp <= -19/-8/-4/-3/-2`, `exp >= 19/8/4/3/2`, `d.exp < -62/-57`, `shift > 19`, `o > 64/128/192`): the steps compose, any admissible choice gives the same aligned value', r'(exp|shift) (<=|>=|<|>) -?(19|8|4|3|2)\b|d\.exp (<|>) -?(62|57|4)\b|\bo > (64|128|192)'),
 ('sign or emptiness tests whose zero case is a no-op in both arms (`exp < 0` vs `<= 0`, `ndig > 1`, `p <= 0`, `digs.exp < 0`, `sgn < 0`, `i >= 0`)', r'(exp|shift|digs\.exp|sgn|\bi|\bp|sig) (<=|>=|<|>) 0\b|ndig (>|<) (1|6)|p := width'),
 ('conservative early exits of the transcendental kernels (`exp < -57`, `> 57`, `< -116`, `> 58`, `> 5-l10`, `l10 > -10`): the general path returns the same value at the boundary, or a value within the stated tolerance', r'< -57|> 57|< -116|> 58|5-l10|4-l10|l10 > -10|l10\+int'),
 ('iteration counts and series lengths (`i < 7`, `i < 8`, `i <= 29`, `i <= 10`): one iteration more changes nothing, one term fewer stays within the tolerance the property states (SENSITIVITY §2, C17-e)', r'for i := '),
]
det1 = [r for r in first if 'NOT DETECTED' not in r[3]]
surv1 = [r for r in first if 'NOT DETECTED' in r[3]]
det2 = [second[r[0]] for r in surv1 if r[0] in second and 'NOT DETECTED' not in second[r[0]][3]]
surv = [r for r in surv1 if not (r[0] in second and 'NOT DETECTED' not in second[r[0]][3])]
byfile = collections.OrderedDict()
for r in first:
    f = r[0].split(':')[0]; byfile.setdefault(f, [0, 0, 0, 0]); byfile[f][0] += 1
for r in det1: byfile[r[0].split(':')[0]][1] += 1
for r in det2: byfile[r[0].split(':')[0]][2] += 1
for r in surv: byfile[r[0].split(':')[0]][3] += 1
out = ['# Boundary mutation of every comparison against a numeric literal', '',
 '`tools/boundary_mutants.py` with `MUT_LITERALS=1`: `<` <-> `<=`, `>` <-> `>=`, one comparison at a time, for every comparison',
 'of the library against a numeric literal (shifts excluded). First pass: the quick checks of the properties that use the file',
 'directly; second pass (`MUT_EXTRA=1`) over the survivors: the properties that reach the file indirectly. Raw outputs:',
 '`boundary-literals-part1.out`, `-part2.out`, `-pass2a.out`, `-pass2b.out`.', '',
 '| File | sites | detected in pass 1 | detected in pass 2 | survivors |', '|---|---|---|---|---|']
for f, (n, a, b, c) in byfile.items(): out.append('| %s | %d | %d | %d | %d |' % (f, n, a, b, c))
out.append('| **total** | %d | %d | %d | %d |' % (len(first), len(det1), len(det2), len(surv)))
out += ['', '## Detected only in the second pass', '']
for r in det2: out.append('* `%s` %s — `%s` — %s' % (r[0], r[1], r[2], r[3]))
out += ['', '## Survivors by category', '']
rest = list(surv)
for title, rx in CATS:
    m = [r for r in rest if re.search(rx, r[2])]
    rest = [r for r in rest if r not in m]
    out.append('* **%d** — %s: %s' % (len(m), title, ', '.join('`%s`' % r[0] for r in m)))
out += ['', '## Survivors examined one by one', '']
for r in rest: out.append('* `%s` %s — `%s` — NOTE_%s' % (r[0], r[1], r[2], r[0]))
open('/verif/mutants/boundary-literals.md', 'w').write('\n'.join(out) + '\n')
print(len(first), len(det1), len(det2), len(surv), len(rest))
