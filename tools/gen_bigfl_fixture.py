#!/usr/bin/env python3-vt
"""Generates harness/bigfl/fixture.txt: (function, argument(s), 70-digit value) rows computed with mpmath at 400 digits.
Run once; the output is committed so nothing is needed at run time."""
import mpmath as mp, random
mp.mp.dps = 400
random.seed(20260929)
rows = []
def add(fn, args, val):
    rows.append("%s %s %s" % (fn, " ".join(args), mp.nstr(val, 70, strip_zeros=False, min_fixed=0, max_fixed=0)))
def rnd_dec(lo, hi):
    e = random.randint(lo, hi)
    m = random.randint(1, 10**random.randint(1, 34))
    return "%de%d" % (m, e - len(str(m)))
fns1 = {"exp": mp.exp, "expm1": mp.expm1, "log": mp.log, "log1p": mp.log1p}
for _ in range(40):
    for s in (1, -1):
        a = rnd_dec(-40, 4)
        if s < 0: a = "-" + a
        x = mp.mpf(a)
        add("exp", [a], mp.exp(x)); add("expm1", [a], mp.expm1(x))
for a in ["1e-6000", "-1e-6000", "3e-3000", "-7e-100", "5e-20", "-5e-20", "1e-30", "-1e-30", "14000", "-14000", "0.5", "-0.5", "1", "-1", "100.25", "-100.25"]:
    x = mp.mpf(a); add("exp", [a], mp.exp(x)); add("expm1", [a], mp.expm1(x))
for _ in range(60):
    a = rnd_dec(-6100, 6100); x = mp.mpf(a); add("log", [a], mp.log(x))
for k in range(1, 36):
    for s in ("+", "-"):
        a = ("1" + "0"*(k-1) + "1e-%d" % k) if s == "+" else ("9"*k + "e-%d" % k)
        add("log", [a], mp.log(mp.mpf(a)))
for _ in range(40):
    for s in (1, -1):
        a = rnd_dec(-60, 0)
        if s < 0: a = "-" + a
        x = mp.mpf(a)
        if x > -1: add("log1p", [a], mp.log1p(x))
for a in ["1e-6000", "-1e-6000", "1e-3650", "-1e-4000", "5e-35", "-5e-35", "0.5", "-0.5", "-0.999999999", "1e10", "12345.678"]:
    add("log1p", [a], mp.log1p(mp.mpf(a)))
for _ in range(60):
    x = rnd_dec(-30, 30); y = rnd_dec(-3, 2)
    if random.random() < .5: y = "-" + y
    add("pow", [x, y], mp.power(mp.mpf(x), mp.mpf(y)))
for x, y in [("10", "0.5"), ("2", "0.5"), ("0.999999999999999999", "1e20"), ("1.000000000000000001", "-1e20"), ("7", "2000.5"), ("1e-10", "600.25"), ("123456789", "-700.125")]:
    add("pow", [x, y], mp.power(mp.mpf(x), mp.mpf(y)))
add("const", ["ln2"], mp.log(2)); add("const", ["ln10"], mp.log(10)); add("const", ["e"], mp.e)
open("/verif/harness/bigfl/fixture.txt", "w").write("\n".join(rows) + "\n")
print(len(rows), "rows")
