import json,sys
pid=sys.argv[1]
props={json.loads(l)['id']:json.loads(l) for l in open('/verif/properties.jsonl')}
p=props[pid]
print(f"""You are helping evaluate a test suite's blind spots for the Go library github.com/woodsbury/decimal128 (a pure-Go IEEE 754 decimal128 floating-point type). You have your own scratch git worktree of the library at /tmp/wt/{pid} (work ONLY there and in /tmp/wt/out-{pid}; never touch /repo or /verif, and do not read anything under /verif).

Environment: no network. Prefix every go command with: export GOFLAGS=-mod=mod GOPROXY=off GOSUMDB=off GOTOOLCHAIN=local
The existing test suite is run with: cd /tmp/wt/{pid} && go test -vet=off -count=1 ./...   (takes ~30 s; every test passes on the unmodified tree and must keep passing).

The semantic property under study (call it {pid}):

  Title: {p['title']}
  Statement: {p['statement']}
  Quantifier: {p['quantifier']['text']}

Your task: produce TWO independent, different code changes (call them C and D) to the library's non-test source files, each of which
  1. BREAKS the property above (for some inputs the library now returns a result the statement forbids),
  2. still compiles, and still passes the complete existing test suite,
  3. is REALISTIC (the kind of slip a maintainer could make in a refactor or optimisation: an off-by-one in a threshold, a dropped sticky/remainder bit, a wrong branch for one exponent gap, a swapped sign in a rare arm, a loosened fast-path condition, a mishandled boundary constant) — not a blatant sabotage like 'if x == 12345 return 0',
  4. is SUBTLE: it needs something specific to manifest — an unusual input class, a particular exponent gap or digit count, a boundary value, a specific rounding mode together with a tie, two cooperating sites that each look fine alone, a multi-step sequence — so ordinary use and the existing tests do not expose it at once. Prefer changes whose failing inputs are a small fraction of the input space but are still a describable class (not a single magic value).
C and D should differ in kind and location (different functions or different mechanisms), not two variants of one edit. Do not edit verif_export.go.

For each change X in {{C, D}} deliver, under /tmp/wt/out-{pid}/X/:
  - patch.diff : output of `git diff` for the change (relative to the worktree's HEAD), containing only non-test source changes;
  - demo_test.go : a Go test file (package decimal128_test, importing github.com/woodsbury/decimal128, using only the exported API) with one test function named TestDemo{pid}X that FAILS with the change applied and PASSES on the unmodified tree. The demo must assert the property itself against independently computed expected values (literal expected results you derived by hand or with math/big) — not compare against the unmodified implementation;
  - meta.json : {{"property": "{pid}", "summary": "...what was changed...", "needs": "...what specific input/sequence/mode is needed for it to manifest...", "files": [...], "verified": "...commands you ran and their outcome..."}}.

You must actually verify all of it: (i) unmodified tree: demo passes (copy the demo into the worktree root temporarily, run `go test -vet=off -count=1 -run TestDemo{pid}X .`, then remove it); (ii) with the patch applied: full existing suite still passes, and the demo fails; (iii) restore the worktree to a clean state at the end (git checkout -- . ; remove the demo file) so that `git status` is clean. Read the library's source carefully before choosing where to cut; the relevant code is anchored in: {', '.join(p['anchors']['files'])}.

Finish with a short report: for C and D, what you changed, the class of inputs that exposes it, and confirmation of the three verification steps.""")
