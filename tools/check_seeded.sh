#!/bin/sh
# check_seeded.sh [tier] — applies every seeded change in turn to /repo, runs its property's check, reverts.
# Prints one line per change; exit 1 if any change goes undetected. Do not run other checks concurrently
# (they rebuild from /repo's working tree).
cd "$(dirname "$0")/.." || exit 2
T=${1:-quick}
miss=0
for d in seeded/*/; do
	id=$(basename "$d"); p=${id%%-*}
	# a change written for one property may belong to another one's statement (seeded/<id>/check_with names it)
	[ -f "$d/check_with" ] && p=$(cat "$d/check_with")
	out=$(tools/try_mutant.sh "$d" "$p" "$T" 2>&1)
	case "$out" in
	*"exit=1:"*) echo "DETECTED $id" ;;
	*) echo "MISSED   $id  $out" | cut -c1-300; miss=1 ;;
	esac
done
rm -rf /tmp/mutreg
exit $miss
