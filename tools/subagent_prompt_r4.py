"""subagent_prompt_r4.py <Cnn> <X> <Y> — brief for a fourth-round sub-agent (changes named X and Y)."""
import json, sys, glob, subprocess, os
pid, X, Y = sys.argv[1:4]
here = os.path.dirname(os.path.abspath(__file__))
prev = []
for d in sorted(glob.glob('/verif/seeded/%s-*/meta.json' % pid)):
    m = json.load(open(d)); prev.append("- " + m.get('summary', '')[:350].replace('\n', ' '))
txt = subprocess.check_output(['python3', os.path.join(here, 'subagent_prompt.py'), pid]).decode()
txt = txt.replace("(call them C and D)", f"(call them {X} and {Y})").replace("C and D should differ", f"{X} and {Y} should differ")
txt = txt.replace("For each change X in {C, D} deliver, under /tmp/wt/out-%s/X/" % pid, "For each change Z in {%s, %s} deliver, under /tmp/wt/out-%s/Z/" % (X, Y, pid))
txt = txt.replace("TestDemo%sX" % pid, "TestDemo%sZ" % pid).replace("for C and D,", f"for {X} and {Y},")
extra = f"""

Earlier rounds already produced the changes listed at the end; do NOT repeat them or close variants of them. This round, favour changes of the following kinds where the code allows (pick what fits this property):
 (a) the effect depends on program state other than the operand values: the previous contents of a pointer receiver, of a caller-supplied buffer, big.Int, big.Rat or big.Float; the value of the package variable DefaultRoundingMode; aliasing between arguments (the same value or the same slice passed twice); the order of two calls;
 (b) sibling entry points that are meant to agree stop agreeing for a narrow input class: method vs package-level function, ...WithMode vs the mode-less form, Format vs Append vs String vs MarshalText vs MarshalJSON, Parse vs MustParse vs Scan vs UnmarshalText vs UnmarshalJSON, Cmp vs Compare vs Equal vs Less, Int64 vs Uint64 vs Int, Float32 vs Float64 vs Float;
 (c) a helper shared by several exported functions is changed so that only one of its callers (not the obvious one) misbehaves;
 (d) boundaries of the internal representation: coefficients around 2^64, 2^96, 2^113, 10^19, 10^34 and the largest coefficient 12980742146337069071326240823050239; digit counts 19/20, 34/35, 38/39; exponents at both ends; values whose result changes the number of digits (99..9 -> 100..0);
 (e) only one sign, or one sign combination of the operands, is affected;
 (f) a performance shortcut (early return, fast path, table lookup) whose guard is slightly too wide.
The changes are named {X} and {Y} (directories /tmp/wt/out-{pid}/{X} and /tmp/wt/out-{pid}/{Y}; demo test functions TestDemo{pid}{X} and TestDemo{pid}{Y}).

Changes already produced for this property:
""" + "\n".join(prev) + "\n"
print(txt + extra)
