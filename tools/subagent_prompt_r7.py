"""subagent_prompt_r4.py <Cnn> <X> <Y> — brief for a seventh-round sub-agent (changes named X and Y)."""
import json, sys, glob, subprocess, os
pid, X, Y = sys.argv[1:4]
here = os.path.dirname(os.path.abspath(__file__))
prev = []
for d in sorted(glob.glob('/verif/seeded/%s-*/meta.json' % pid)):
    m = json.load(open(d)); prev.append("- " + m.get('summary', '')[:200].replace('\n', ' '))
txt = subprocess.check_output(['python3', os.path.join(here, 'subagent_prompt.py'), pid]).decode()
txt = txt.replace("(call them C and D)", f"(call them {X} and {Y})").replace("C and D should differ", f"{X} and {Y} should differ")
txt = txt.replace("For each change X in {C, D} deliver, under /tmp/wt/out-%s/X/" % pid, "For each change Z in {%s, %s} deliver, under /tmp/wt/out-%s/Z/" % (X, Y, pid))
txt = txt.replace("TestDemo%sX" % pid, "TestDemo%sZ" % pid).replace("for C and D,", f"for {X} and {Y},")
extra = f"""

Six earlier rounds already produced the changes listed at the end (ten or so for this property); do NOT repeat them or close variants of them (same line with another constant, the mirror-image arm of the same edit, the same slip in a sibling function or sibling reduction kernel, the same kind of table-entry or guard-constant edit at another index). Start by listing for yourself which functions, branches and input classes of this property those changes have NOT touched, then work there. Kinds that earlier rounds used little (pick what fits this property):
 (s) the documented panics and errors: the condition under which Sign / Payload / Int / Rat / Float / Int64.. / MustParse panic or an error is returned, the error's type and what errors.Is / errors.As report, a panic replaced by a wrong value or the reverse for a narrow class;
 (t) NaN handling: which operand's NaN is propagated, whether its payload and sign survive, payload encoding and the Payload().String() text for one operation or one operand class, signalling-NaN bit patterns, NaN ordering in Compare / Min / Max;
 (u) formatting and scanning options: flag combinations ('+', ' ', '#', '0', '-'), width or precision supplied through '*' arguments, upper-case verbs, unsupported verbs, Scan with a width limit or leading white space, MarshalText vs String vs Format for one shape of value;
 (v) sign-only operations and classification (Abs, Neg, CopySign, Signbit, Sign, IsInt-like tests, Canonical) on zeros, infinities, NaNs and non-canonical encodings;
 (w) results that are exactly representable but are produced through the inexact path (or the reverse), so that the sticky / inexact information is wrong although the digits are right — visible only under a directed rounding mode or through a later operation;
 (x) arguments at the limits of Go types (math.MinInt, math.MaxInt32+1, int64 minimum, empty and nil slices, very long inputs) combined with an ordinary decimal value;
 (y) anything else you judge likely and untried.
The changes are named {X} and {Y} (directories /tmp/wt/out-{pid}/{X} and /tmp/wt/out-{pid}/{Y}; demo test functions TestDemo{pid}{X} and TestDemo{pid}{Y}). If after a reasonable search (about an hour) you can find only one change that satisfies all the conditions and is not a variant of an earlier one, deliver that one and say so; if none, say so.

Changes already produced for this property:
""" + "\n".join(prev) + "\n"
print(txt + extra)
