#!/bin/sh
# process_and_keep.sh <Cnn> <X> [check_with] — process /tmp/wt/out-Cnn/X (see process_mutant.sh); when the change is
# confirmed and the quick check reports it at both seeds, keep it as seeded/Cnn-X. Otherwise print what happened.
P=$1; X=$2; CW=${3:-$1}
cd "$(dirname "$0")/.." || exit 2
D=/tmp/wt/out-$P/$X
[ -f $D/patch.diff ] || { echo "$P-$X: no patch"; exit 1; }
out=$(tools/process_mutant.sh $D $CW 1 7 2>&1)
echo "$out" | cut -c1-400
case "$out" in *"confirmed"*) ;; *) echo "$P-$X NOT CONFIRMED"; exit 1;; esac
n=$(echo "$out" | grep -c 'exit=1:')
if [ "$n" = 2 ]; then
	python3 tools/keep_mutant.py $D $P-$X $P "detected by ./run.sh $CW quick (exit 1, VIOLATION line, shrunk replay) at VERIF_SEED 1 and 7, as built" >/dev/null
	[ "$CW" != "$P" ] && echo $CW > seeded/$P-$X/check_with
	echo "$P-$X KEPT (detected)"
else
	echo "$P-$X MISSED at $((2-n)) of 2 seeds"
fi
