#!/bin/sh
# run_all.sh [quick|thorough] — runs every registered check in turn and prints one line per property.
cd "$(dirname "$0")/.." || exit 2
T=${1:-quick}
rc=0
for p in C01 C02 C03 C04 C05 C06 C07 C08 C09 C10 C11 C12 C13 C14 C15 C16 C17 C18 C19 C20; do
	./run.sh $p $T > /tmp/run_all.$p.out 2>&1; r=$?
	echo "$p exit=$r $(grep -E '^(OK|VIOLATION|INFRASTRUCTURE|KNOWN-FINDING)' /tmp/run_all.$p.out | head -4 | tr '\n' ' ' | cut -c1-400)"
	[ $r -ne 0 ] && rc=$r
done
exit $rc
