import json,sys,glob,subprocess
pid=sys.argv[1]
prev=[]
for d in sorted(glob.glob('/verif/seeded/%s-*/meta.json'%pid)):
    m=json.load(open(d)); prev.append("- "+m.get('summary','')[:400].replace('\n',' '))
txt=subprocess.check_output(['python3',__import__('os').path.join(__import__('os').path.dirname(__import__('os').path.abspath(__file__)),'subagent_prompt.py'),pid]).decode()
extra="\n\nAn earlier round already produced the following changes for this property; do NOT repeat them or close variants of them (pick other functions, other mechanisms, other input classes). If the property involves several functions or paths, prefer the ones not touched below. This round, favour changes of these kinds where the code allows: two cooperating sites that each look harmless alone; a change visible only through a multi-step sequence of API calls (value built by one operation and consumed by another); a change confined to one rounding mode or one value of DefaultRoundingMode; a change confined to non-canonical encodings (cohort members with trailing zeros, zeros with unusual exponents, NaN/Inf with extra bits); a change at the extreme ends of the exponent range; a change in a less-used entry point or receiver/buffer variant of the API.\n"+"\n".join(prev)+"\n"
print(txt+extra)
