"""uncovered.py <cover profile> — list the blocks of /repo's sources that the profile never executed."""
import re, sys, collections
blocks = collections.OrderedDict()
for l in open(sys.argv[1]):
    m = re.match(r'(.*):(\d+)\.(\d+),(\d+)\.(\d+) (\d+) (\d+)', l)
    if not m:
        continue
    f, sl, sc, el, ec, n, c = m.groups()
    k = (f.split('/')[-1], int(sl), int(el), int(n))
    blocks[k] = blocks.get(k, 0) + int(c)
tot = sum(k[3] for k in blocks if k[0] != 'verif_export.go')
unc = sorted(k for k, c in blocks.items() if c == 0 and k[0] != 'verif_export.go')
for fn, sl, el, n in unc:
    src = open('/repo/' + fn).read().split('\n')
    print(f"{fn}:{sl}-{el}: {src[sl-1].strip()[:100]}")
print(f"{len(unc)} blocks / {sum(k[3] for k in unc)} of {tot} statements never executed")
