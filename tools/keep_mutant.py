#!/usr/bin/env python3
"""keep_mutant.py <src dir> <seeded id> <property> <detected_by text>  — copy a confirmed seeded change into /verif/seeded/<id>/"""
import json, os, shutil, sys
src, sid, prop, detected = sys.argv[1:5]
dst = os.path.join('/verif/seeded', sid)
os.makedirs(dst, exist_ok=True)
shutil.copy(os.path.join(src, 'patch.diff'), os.path.join(dst, 'patch.diff'))
shutil.copy(os.path.join(src, 'demo_test.go'), os.path.join(dst, 'demo_test.go'))
try:
    am = json.load(open(os.path.join(src, 'meta.json')))
except Exception:
    am = {}
meta = {
    "id": sid,
    "property": prop,
    "summary": am.get("summary", ""),
    "needs_to_manifest": am.get("needs", ""),
    "files": am.get("files", []),
    "origin": "written by an independent sub-agent that saw only the property text and a scratch worktree of /repo (nothing from /verif)",
    "confirmed_by_me": "tools/verify_mutant.sh: in a scratch worktree of /repo HEAD the patch applies, the demo passes without it, fails with it, and the repository suite still passes in full",
    "check_result": detected,
    "how_to_rerun": f"tools/try_mutant.sh seeded/{sid} {prop} quick",
}
json.dump(meta, open(os.path.join(dst, 'meta.json'), 'w'), indent=1)
print("kept", dst)
