#!/usr/bin/env python3
"""bid.py <coef>e<exp> ... -> harness D strings (hi.lo hex) for finite decimal128 BID encodings."""
import sys, re
def enc(s):
    m = re.fullmatch(r'([+-]?)(\d+)e(-?\d+)', s)
    neg = m.group(1) == '-'; c = int(m.group(2)); e = int(m.group(3))
    assert 0 <= c <= 5*2**111-1 and -6176 <= e <= 6111
    be = e + 6176
    if c.bit_length() > 113:
        hi = (3 << 61) | (be << 47) | ((c >> 64) & ((1 << 47) - 1))
    else:
        hi = (be << 49) | (c >> 64)
    if neg: hi |= 1 << 63
    return "%016x.%016x" % (hi, c & (2**64 - 1))
if __name__ == '__main__':
    for a in sys.argv[1:]:
        print(a, enc(a))
