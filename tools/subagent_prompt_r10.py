"""subagent_prompt_r10.py <Cnn> <X> <Y> — brief for a tenth-round sub-agent: changes whose effect depends on call
history, shared state or concurrency (caches, pools, lazily built tables, reused buffers), named X and Y."""
import json, sys, glob, subprocess, os
pid, X, Y = sys.argv[1:4]
here = os.path.dirname(os.path.abspath(__file__))
prev = []
for d in sorted(glob.glob('/verif/seeded/%s-*/meta.json' % pid)):
    m = json.load(open(d)); prev.append("- " + m.get('summary', '')[:160].replace('\n', ' '))
txt = subprocess.check_output(['python3', os.path.join(here, 'subagent_prompt.py'), pid]).decode()
txt = txt.replace("(call them C and D)", f"(call them {X} and {Y})").replace("C and D should differ", f"{X} and {Y} should differ")
txt = txt.replace("For each change X in {C, D} deliver, under /tmp/wt/out-%s/X/" % pid, "For each change Z in {%s, %s} deliver, under /tmp/wt/out-%s/Z/" % (X, Y, pid))
txt = txt.replace("TestDemo%sX" % pid, "TestDemo%sZ" % pid).replace("for C and D,", f"for {X} and {Y},")
extra = f"""

THIS ROUND HAS A SPECIAL THEME. Many earlier changes (listed at the end) were pure functions of the operands: a given call always returned the same wrong answer. This time each change must make the result of a call depend on something OTHER than that call's arguments and DefaultRoundingMode — on the HISTORY of earlier calls, on state shared between calls or goroutines, or on memory the library does not own. The library as it stands has no such state, so the change typically INTRODUCES it the way a performance-minded maintainer would, with a slip that only shows in a particular sequence. Kinds to consider (pick what fits this property; {X} and {Y} must be of different kinds):
 (a) a memoisation cache (last argument -> last result, or a small map/array keyed by a hash or by PART of the argument: low word only, coefficient without exponent or sign, value without cohort, string without its length, rounding mode left out of the key) that returns a stale result on a key collision — correct for any single call and for repeated identical calls, wrong only for a particular PAIR or sequence of different calls;
 (b) a lazily built or incrementally extended table (powers of ten, logarithm constants, digit pairs) whose lazy initialisation is wrong for one order of first uses, or that is extended in place and corrupted by one particular call so that LATER unrelated calls are wrong;
 (c) a sync.Pool / package-level scratch buffer / reused big.Int that is not fully reset, so that a long operand leaves residue that a later shorter operand picks up (only the sequence long-then-short fails);
 (d) a result that aliases memory of an argument or of an earlier result (returned slice shares its backing array with the input or with package state; a returned *big.Int is shared) so that a later call or a later write by the caller changes an earlier result;
 (e) state guarded incorrectly for concurrent use (a cache filled without a lock, a double-checked flag without synchronisation, a shared counter): sequential use is always right, two goroutines calling at the same time can get a wrong answer or a data race;
 (f) DefaultRoundingMode (or another input) sampled once and remembered (at first use, in a cache key, in a lazily built table) so that changing it later has no or a delayed effect.
The change must still look like something a maintainer would write (give the cache/pool/table a plausible comment), must be correct for a single isolated call and for the existing tests (which mostly call each function with fresh, unrelated arguments in a fixed order), and must break the property above for some realistic SEQUENCE of calls (two to five calls) or some concurrent use. The demo test must perform that sequence (or the concurrent calls; for a race, run enough iterations that it fails reliably, and say whether `go test -race` is needed) and assert the property's own expected results, derived independently.
The changes are named {X} and {Y} (directories /tmp/wt/out-{pid}/{X} and /tmp/wt/out-{pid}/{Y}; demo test functions TestDemo{pid}{X} and TestDemo{pid}{Y}). If after a reasonable search (about an hour) you can find only one change that satisfies all the conditions, deliver that one and say so; if none, say so.

Changes already produced for this property in earlier rounds (for information; do not repeat the stateful ones among them):
""" + "\n".join(prev) + "\n"
print(txt + extra)
