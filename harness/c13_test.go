package harness

import (
	"encoding/json"
	"errors"
	"strconv"
	"strings"
	"testing"

	d128 "github.com/woodsbury/decimal128"
	"pgregory.net/rapid"

	"verif/harness/ref"
)

// C13 — JSON encoding emits valid JSON numbers that decode to the same value.

// isJSONNumber is an RFC 8259 number recogniser: -?(0|[1-9][0-9]*)(\.[0-9]+)?([eE][+-]?[0-9]+)?
func isJSONNumber(s string) bool {
	i := 0
	n := len(s)
	if i < n && s[i] == '-' {
		i++
	}
	if i >= n {
		return false
	}
	if s[i] == '0' {
		i++
	} else if s[i] >= '1' && s[i] <= '9' {
		for i < n && s[i] >= '0' && s[i] <= '9' {
			i++
		}
	} else {
		return false
	}
	if i < n && s[i] == '.' {
		i++
		j := i
		for i < n && s[i] >= '0' && s[i] <= '9' {
			i++
		}
		if i == j {
			return false
		}
	}
	if i < n && (s[i] == 'e' || s[i] == 'E') {
		i++
		if i < n && (s[i] == '+' || s[i] == '-') {
			i++
		}
		j := i
		for i < n && s[i] >= '0' && s[i] <= '9' {
			i++
		}
		if i == j {
			return false
		}
	}
	return i == n
}

type c13MarshalArgs struct {
	V D
}

type c13Doc struct {
	A d128.Decimal
	B []d128.Decimal
	M map[string]d128.Decimal
	P *d128.Decimal
	I any `json:"I,omitempty"`
}

var c13marshal = Register("C13", "C13.marshal", func(a c13MarshalArgs) *Violation {
	st := S("C13", "marshal")
	st.Eval(1)
	d := a.V.Dec()
	n := a.V.Num()
	b, err := d.MarshalJSON()
	if err == nil {
		if v := ownedBytes("MarshalJSON("+n.String()+")", b, func() []byte { r, _ := d.MarshalJSON(); return r }); v != nil {
			return v
		}
	}
	if n.Class != ref.Finite {
		var uve *json.UnsupportedValueError
		if err == nil || !errors.As(err, &uve) {
			return violf("MarshalJSON(%s) = %q, %v; want *json.UnsupportedValueError", n, b, err)
		}
		if _, err := json.Marshal(c13Doc{A: d}); err == nil {
			return violf("json.Marshal of a struct holding %s succeeded", n)
		}
		st.Class("special")
		return nil
	}
	if err != nil {
		return violf("MarshalJSON(%s): %v", n, err)
	}
	s := string(b)
	if !isJSONNumber(s) {
		return violf("MarshalJSON(%s) = %q is not an RFC 8259 number", n, abbr(s))
	}
	num, ok := ref.EvalNumeral(s)
	if !ok || !num.Denotes(n) {
		return violf("MarshalJSON(%s) = %q does not denote the value", n, abbr(s))
	}
	// no superfluous digits: the significant digits written are exactly the coefficient's
	wantDigits := strings.TrimRight(n.Coef.String(), "0")
	if n.IsZero() {
		wantDigits = ""
	}
	written := strings.Trim(num.IntPart+num.FracPart, "0")
	if num.HasExp {
		written = strings.TrimLeft(num.IntPart+num.FracPart, "0")
		if strings.HasSuffix(written, "0") && written != "" {
			return violf("MarshalJSON(%s) = %q has superfluous trailing zeros in exponent form", n, abbr(s))
		}
	}
	if num.HasPoint && strings.HasSuffix(num.FracPart, "0") {
		return violf("MarshalJSON(%s) = %q has superfluous trailing zeros after the point", n, abbr(s))
	}
	if strings.Trim(written, "0") != strings.Trim(wantDigits, "0") {
		return violf("MarshalJSON(%s) = %q: digits %q, want %q", n, abbr(s), written, wantDigits)
	}
	// direct round trip
	u := prior(hashString(s))
	if err := u.UnmarshalJSON(b); err != nil || !u.Equal(d) || u.Signbit() != d.Signbit() {
		return violf("UnmarshalJSON(MarshalJSON(%s) = %q) = %s, %v", n, abbr(s), ref.Decode(u), err)
	}
	// through encoding/json in a struct, slice, map and pointer
	doc := c13Doc{A: d, B: []d128.Decimal{d, d.Neg()}, M: map[string]d128.Decimal{"k": d}, P: &d}
	enc, err := json.Marshal(doc)
	if err != nil {
		return violf("json.Marshal(doc with %s): %v", n, err)
	}
	if !json.Valid(enc) {
		return violf("json.Marshal(doc with %s) produced invalid JSON %q", n, abbr(string(enc)))
	}
	var back c13Doc
	if err := json.Unmarshal(enc, &back); err != nil {
		return violf("json.Unmarshal(%q): %v", abbr(string(enc)), err)
	}
	same := func(x, y d128.Decimal) bool { return x.Equal(y) && x.Signbit() == y.Signbit() }
	if !same(back.A, d) || len(back.B) != 2 || !same(back.B[0], d) || !same(back.B[1], d.Neg()) || !same(back.M["k"], d) || back.P == nil || !same(*back.P, d) {
		return violf("encoding/json round trip of %s through %q lost the value", n, abbr(string(enc)))
	}
	if num.HasExp {
		st.Class("exponent-form")
	} else {
		st.Class("positional")
	}
	if num.HasExp || len(wantDigits) >= 20 {
		st.NT(hashWords(a.V.Hi, a.V.Lo), func() any { return map[string]any{"d": n.String(), "json": abbr(s)} })
	}
	return nil
})

type c13UnmarshalArgs struct {
	Data string
	Mode uint8 `json:",omitempty"` // DefaultRoundingMode during the call (index into ref.Modes)
}

var c13unmarshal = Register("C13", "C13.unmarshal", func(a c13UnmarshalArgs) *Violation {
	st := S("C13", "unmarshal")
	st.Eval(1)
	data := []byte(a.Data)
	sentinel := prior(hashString(a.Data) + uint64(a.Mode))
	if a.Data == "null" && sentinel == (d128.Decimal{}) {
		sentinel = ref.FromBits(0x3040000000000000, 424242) // "untouched" is only observable on a non-zero receiver
	}
	u := sentinel
	mode := ref.Modes[int(a.Mode)%6]
	oldMode := d128.DefaultRoundingMode
	d128.DefaultRoundingMode = mode
	defer func() { d128.DefaultRoundingMode = oldMode }()
	err := u.UnmarshalJSON(data)
	show := abbr(strconv.Quote(a.Data))
	if string(data) != a.Data {
		return violf("UnmarshalJSON modified its input")
	}
	switch {
	case a.Data == "null":
		if err != nil || u != sentinel {
			return violf("UnmarshalJSON(null) = %s, %v; want the receiver untouched and no error", ref.Decode(u), err)
		}
		st.Class("null")
		return nil
	case isJSONNumber(a.Data):
		p, perr := d128.Parse(a.Data)
		// the expected value is also computed independently of the package's parser, so that a
		// defect shared by Parse and UnmarshalJSON (they use the same routine) is still visible
		if lit := classifyLiteral(a.Data); lit.Class == litValid && lit.Kind == ref.Finite {
			want, overflow, alt := lit.expected(mode)
			if overflow {
				if err == nil {
					return violf("UnmarshalJSON(%s) returned no error although the number is beyond the largest Decimal (stored %s)", show, ref.Decode(u))
				}
			} else {
				g := ref.Decode(u)
				if err != nil {
					return violf("UnmarshalJSON(%s): %v; the number is representable as %s", show, err, want)
				}
				if !ref.SameVal(g, want) && !(alt != nil && ref.SameVal(g, *alt)) {
					return violf("UnmarshalJSON(%s) = %s, want %s", show, g, want)
				}
			}
		}
		if perr != nil {
			if !errors.Is(perr, strconv.ErrRange) {
				return violf("Parse(%s) rejects an RFC 8259 number: %v", show, perr)
			}
			if err == nil {
				return violf("UnmarshalJSON(%s) returned no error although the number is out of range (stored %s)", show, ref.Decode(u))
			}
			st.Class("number-out-of-range")
		} else {
			if err != nil {
				return violf("UnmarshalJSON(%s): %v; Parse gives %s", show, err, ref.Decode(p))
			}
			if u != p {
				return violf("UnmarshalJSON(%s) = %s, Parse gives %s", show, ref.Decode(u), ref.Decode(p))
			}
			st.Class("number")
		}
		// the same number inside documents handled by encoding/json
		var doc c13Doc
		derr := json.Unmarshal([]byte(`{"A":`+a.Data+`,"B":[`+a.Data+`],"M":{"k":`+a.Data+`},"P":`+a.Data+`}`), &doc)
		if perr != nil {
			if derr == nil {
				return violf("json.Unmarshal of a document containing the out-of-range number %s succeeded", show)
			}
		} else if derr != nil || doc.A != p || len(doc.B) != 1 || doc.B[0] != p || doc.M["k"] != p || doc.P == nil || *doc.P != p {
			return violf("json.Unmarshal of a document containing %s: %v, A=%s", show, derr, ref.Decode(doc.A))
		}
		st.NT(hashString(a.Data), func() any { return map[string]any{"json_number": abbr(a.Data)} })
		return nil
	case json.Valid(data) && strings.Trim(a.Data, " \t\r\n") == a.Data:
		// a JSON value that is not a number (string, bool, array, object): must be an error
		// (values with surrounding white space never reach UnmarshalJSON through encoding/json
		// and are handled by the last case)
		if err == nil {
			return violf("UnmarshalJSON(%s) accepted a JSON value that is not a number (stored %s)", show, ref.Decode(u))
		}
		var doc c13Doc
		if derr := json.Unmarshal([]byte(`{"A":`+a.Data+`}`), &doc); derr == nil {
			return violf("json.Unmarshal accepted the non-number %s for a Decimal field", show)
		}
		st.Class("json-non-number")
		st.NT(hashString(a.Data), func() any { return map[string]any{"json_value": abbr(a.Data)} })
		return nil
	}
	// not JSON at all: no panic (reaching here proves it); if accepted, the value must be the one Parse gives
	if err == nil && a.Data == "" {
		// empty input is a deliberate no-op of the code (encoding/json never passes it on); the statement does not
		// settle it
		st.Class("empty-input")
	} else if err == nil {
		// (also when the receiver still holds its earlier value: only `null` may be accepted without storing
		// anything, so a nil error for any other input must come with the value Parse gives for it)
		p, perr := d128.Parse(a.Data)
		if perr != nil || !ref.SameVal(ref.Decode(p), ref.Decode(u)) {
			return violf("UnmarshalJSON(%s) silently stored %s; Parse gives %s, %v", show, ref.Decode(u), ref.Decode(p), perr)
		}
		st.Class("not-json-but-accepted-as-go-float-syntax")
	} else {
		st.Class("not-json-rejected")
	}
	return nil
})

func genJSONNumber(t *rapid.T) string {
	var b strings.Builder
	if ir(t, 0, 1, "neg") == 1 {
		b.WriteByte('-')
	}
	if ir(t, 0, 199, "compensated") == 0 {
		// a long run of zeros cancelled by the written exponent (a moderate value although digit count and exponent
		// are both far beyond the range, and beyond 16- and 20-bit counters), as C05's mega-literals
		z := []int{300, 7000, 40000, 70000, 140000, 700000}[ir(t, 0, 5, "zeros")] + ir(t, 0, 9, "zoff")
		body := strings.TrimLeft(digitString(t, ir(t, 1, 30, "n")), "0") + "7"
		lead := ir(t, -30, 30, "lead")
		if rapid.Bool().Draw(t, "fracZeros") {
			return b.String() + "0." + strings.Repeat("0", z) + body + "e" + strconv.Itoa(z+len(body)+lead)
		}
		return b.String() + body + strings.Repeat("0", z) + "e" + strconv.Itoa(-z+lead)
	}
	var intD, fracD string
	switch ir(t, 0, 5, "shape") {
	case 0:
		intD = "0"
	case 1:
		// tie after the 34th/35th digit
		all := fullCoef(t).String() + []string{"5", "50", "51", "49", "5000000001", ""}[ir(t, 0, 5, "tail")]
		cut := ir(t, 1, len(all), "cut")
		intD, fracD = all[:cut], all[cut:]
	case 2:
		n := ir(t, 36, 120, "n")
		all := digitString(t, n)
		if all[0] == '0' {
			all = "1" + all[1:]
		}
		cut := ir(t, 1, n, "cut")
		intD, fracD = all[:cut], all[cut:]
	default:
		intD = digitString(t, ir(t, 1, 36, "ni"))
		intD = strings.TrimLeft(intD, "0")
		if intD == "" {
			intD = "0"
		}
		fracD = digitString(t, ir(t, 0, 36, "nf"))
	}
	b.WriteString(intD)
	if fracD != "" {
		b.WriteString("." + fracD)
	}
	if ir(t, 0, 2, "hasExp") != 0 {
		var e int
		switch ir(t, 0, 4, "expKind") {
		case 0:
			e = ir(t, -40, 40, "e")
		case 1:
			e = ir(t, -6230, -6100, "eLow") - len(intD)
		case 2:
			e = ir(t, 6090, 6160, "eHigh") - len(intD)
		case 3:
			e = genNear(t, 20, 6190, -6190, 32767, -32768, 65536, 1000000)
		default:
			e = ir(t, -7000, 7000, "e")
		}
		b.WriteByte("eE"[ir(t, 0, 1, "echar")])
		if e < 0 {
			b.WriteString("-" + strings.Repeat("0", ir(t, 0, 2, "ez")) + strconv.Itoa(-e))
		} else {
			b.WriteString([]string{"", "+"}[ir(t, 0, 1, "plus")] + strings.Repeat("0", ir(t, 0, 2, "ez")) + strconv.Itoa(e))
		}
	}
	return b.String()
}

func TestC13_Marshal(t *testing.T) {
	runRapid(t, 40000, 2000000, func(t *rapid.T) {
		var v D
		switch ir(t, 0, 5, "kind") {
		case 0:
			v = genAny(t)
		case 1, 2:
			// around the positional / exponent switch of the JSON form (-6 and 20)
			c := genCoef(t)
			if c.Sign() == 0 {
				c = bi(1)
			}
			x := genNear(t, 3, -7, -6, 19, 20, 21, 0)
			v = DFin(genSign(t), c, clampExp(x-ref.DecLen(c)+1))
		default:
			v = genFinite(t)
		}
		c13marshal.Run(t, c13MarshalArgs{V: v})
	})
}

func TestC13_Unmarshal(t *testing.T) {
	runRapid(t, 40000, 2000000, func(t *rapid.T) {
		var s string
		switch ir(t, 0, 10, "kind") {
		case 10:
			// the JSON literals with one byte changed, dropped, doubled or its case flipped: a shortcut that
			// recognises `null` by its length and first letter accepts "none"
			b := []byte([]string{"null", "null", "true", "false", "NaN", "Infinity"}[ir(t, 0, 5, "lit")])
			pos := ir(t, 0, len(b)-1, "pos")
			switch ir(t, 0, 4, "edit") {
			case 0:
				b[pos] = byte(ir(t, 0, 255, "byte"))
			case 1:
				b[pos] ^= 0x20
			case 2:
				b = append(b[:pos], b[pos+1:]...)
			case 3:
				b = append(b[:pos+1], b[pos:]...)
			default:
				b[pos] = "nulxe0 1_"[ir(t, 0, 8, "near")]
			}
			s = string(b)
		case 0:
			s = []string{"null", `""`, `"1"`, `"1.5"`, "true", "false", "[]", "[1]", "{}", `{"a":1}`, `"NaN"`, `"Inf"`, "[1.5]", `"null"`}[ir(t, 0, 13, "fixed")]
		case 1:
			s = string(ubytes(t, ir(t, 0, 10, "n"), "raw"))
		case 2:
			s = genInvalidCandidate(t)
		case 3:
			s = genValidLiteral(t, false) // Go float syntax, often not JSON
			if len(s) > 500 {
				s = s[:500]
			}
		default:
			s = genJSONNumber(t)
		}
		a := c13UnmarshalArgs{Data: s}
		if ir(t, 0, 2, "otherMode") == 0 {
			a.Mode = uint8(ir(t, 1, 5, "mode"))
		}
		c13unmarshal.Run(t, a)
	})
}
