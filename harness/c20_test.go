package harness

import (
	"encoding/json"
	"fmt"
	"math"
	"math/big"
	"os"
	"path/filepath"
	"strconv"
	"strings"
	"sync"
	"sync/atomic"
	"testing"

	d128 "github.com/woodsbury/decimal128"
	"pgregory.net/rapid"

	"verif/harness/ref"
)

// C20 — every operation is total, pure and safe for concurrent use.

// c20Call is one call of an exported entry point with concrete arguments.
type c20Call struct {
	Op   string
	X, Y D
	I    int    // int argument: exponent, dp, precision, sign, buffer size
	J    int64  // int64 / bit-pattern argument
	M    uint8  // rounding mode, including invalid values 6..255
	S    string // string / byte-slice / format argument
	T    string // second string argument (denominator)
	B    uint8  // byte argument: verb, form
	Neg  bool
}

func bitsSig(ds ...d128.Decimal) []string {
	out := make([]string, len(ds))
	for i, d := range ds {
		h, l := ref.Bits(d)
		out[i] = fmt.Sprintf("%016x.%016x", h, l)
	}
	return out
}

// owned returns the text of a byte slice handed out by the package and then
// overwrites the slice: a caller owns what it is given, so scribbling on it
// must not disturb any later call (which it would if the slice aliased
// package-level state). The determinism re-execution notices the difference.
func owned(b []byte) string {
	s := string(b)
	for i := range b {
		b[i] = '#'
	}
	return s
}

type c20Entry struct {
	name string
	// docPanic reports whether the documentation says this call panics; nil = never.
	// It returns (mustPanic, mayPanic).
	docPanic func(c *c20Call) (bool, bool)
	run      func(c *c20Call) []string
}

func nanArg(c *c20Call) (bool, bool)     { p := c.X.Num().Class == ref.NaN; return p, p }
func specialArg(c *c20Call) (bool, bool) { p := c.X.Num().Class != ref.Finite; return p, p }
func notNaNArg(c *c20Call) (bool, bool)  { p := c.X.Num().Class != ref.NaN; return p, p }
func mode(c *c20Call) d128.RoundingMode  { return d128.RoundingMode(c.M) }
func errStr(err error) string {
	if err == nil {
		return "<nil>"
	}
	return "error"
}

// selfContained returns the error's text and checks that it does not change when the caller reuses the byte slice
// it passed in: an error (or any other result) that still points into the caller's memory is shared state the
// caller never agreed to, and reading it while the buffer is rewritten elsewhere is a data race.
func selfContained(name string, data []byte, err error) string {
	text := func() string {
		if err == nil {
			return ""
		}
		return err.Error()
	}
	before := text()
	for i := range data {
		data[i] = '#'
	}
	if after := text(); after != before {
		panic("IMPURE: the error returned by " + name + " refers to the caller's buffer: it read " + strconv.Quote(before) + " and, after the buffer was overwritten, " + strconv.Quote(after))
	}
	return errStr(err)
}

// c20Flip alternates the earlier contents of big receivers between executions of the same call.
var c20Flip atomic.Uint64

var c20Entries = []c20Entry{
	// arithmetic (any mode value, including invalid ones)
	{"Add", nil, func(c *c20Call) []string { return bitsSig(c.X.Dec().Add(c.Y.Dec())) }},
	{"Sub", nil, func(c *c20Call) []string { return bitsSig(c.X.Dec().Sub(c.Y.Dec())) }},
	{"Mul", nil, func(c *c20Call) []string { return bitsSig(c.X.Dec().Mul(c.Y.Dec())) }},
	{"Quo", nil, func(c *c20Call) []string { return bitsSig(c.X.Dec().Quo(c.Y.Dec())) }},
	{"Pow", nil, func(c *c20Call) []string { return bitsSig(c.X.Dec().Pow(c.Y.Dec())) }},
	{"QuoRem", nil, func(c *c20Call) []string { q, r := c.X.Dec().QuoRem(c.Y.Dec()); return bitsSig(q, r) }},
	{"AddWithMode", nil, func(c *c20Call) []string { return bitsSig(c.X.Dec().AddWithMode(c.Y.Dec(), mode(c))) }},
	{"SubWithMode", nil, func(c *c20Call) []string { return bitsSig(c.X.Dec().SubWithMode(c.Y.Dec(), mode(c))) }},
	{"MulWithMode", nil, func(c *c20Call) []string { return bitsSig(c.X.Dec().MulWithMode(c.Y.Dec(), mode(c))) }},
	{"QuoWithMode", nil, func(c *c20Call) []string { return bitsSig(c.X.Dec().QuoWithMode(c.Y.Dec(), mode(c))) }},
	{"PowWithMode", nil, func(c *c20Call) []string { return bitsSig(c.X.Dec().PowWithMode(c.Y.Dec(), mode(c))) }},
	{"QuoRemWithMode", nil, func(c *c20Call) []string {
		q, r := c.X.Dec().QuoRemWithMode(c.Y.Dec(), mode(c))
		return bitsSig(q, r)
	}},
	// comparison
	{"Cmp", nil, func(c *c20Call) []string {
		r := c.X.Dec().Cmp(c.Y.Dec())
		return []string{fmt.Sprint(int(r), r.Less(), r.Equal(), r.Greater(), r.LessOrEqual(), r.GreaterOrEqual())}
	}},
	{"CmpAbs", nil, func(c *c20Call) []string { return []string{fmt.Sprint(int(c.X.Dec().CmpAbs(c.Y.Dec())))} }},
	{"Equal", nil, func(c *c20Call) []string { return []string{fmt.Sprint(c.X.Dec().Equal(c.Y.Dec()))} }},
	{"Compare", nil, func(c *c20Call) []string { return []string{fmt.Sprint(d128.Compare(c.X.Dec(), c.Y.Dec()))} }},
	{"Min", nil, func(c *c20Call) []string { return bitsSig(d128.Min(c.X.Dec(), c.Y.Dec())) }},
	{"Max", nil, func(c *c20Call) []string { return bitsSig(d128.Max(c.X.Dec(), c.Y.Dec())) }},
	// unary
	{"Abs", nil, func(c *c20Call) []string { return bitsSig(d128.Abs(c.X.Dec())) }},
	{"Neg", nil, func(c *c20Call) []string { return bitsSig(c.X.Dec().Neg()) }},
	{"Canonical", nil, func(c *c20Call) []string { return bitsSig(c.X.Dec().Canonical()) }},
	{"Ceil()", nil, func(c *c20Call) []string { return bitsSig(d128.Ceil(c.X.Dec())) }},
	{"Floor()", nil, func(c *c20Call) []string { return bitsSig(d128.Floor(c.X.Dec())) }},
	{"Round()", nil, func(c *c20Call) []string { return bitsSig(d128.Round(c.X.Dec())) }},
	{"Trunc()", nil, func(c *c20Call) []string { return bitsSig(d128.Trunc(c.X.Dec())) }},
	{"Round(dp,m)", nil, func(c *c20Call) []string { return bitsSig(c.X.Dec().Round(c.I, mode(c))) }},
	{"Ceil(dp)", nil, func(c *c20Call) []string { return bitsSig(c.X.Dec().Ceil(c.I)) }},
	{"Floor(dp)", nil, func(c *c20Call) []string { return bitsSig(c.X.Dec().Floor(c.I)) }},
	{"Sqrt", nil, func(c *c20Call) []string { return bitsSig(d128.Sqrt(c.X.Dec())) }},
	{"Cbrt", nil, func(c *c20Call) []string { return bitsSig(d128.Cbrt(c.X.Dec())) }},
	{"Exp", nil, func(c *c20Call) []string { return bitsSig(d128.Exp(c.X.Dec())) }},
	{"Exp2", nil, func(c *c20Call) []string { return bitsSig(d128.Exp2(c.X.Dec())) }},
	{"Exp10", nil, func(c *c20Call) []string { return bitsSig(d128.Exp10(c.X.Dec())) }},
	{"Expm1", nil, func(c *c20Call) []string { return bitsSig(d128.Expm1(c.X.Dec())) }},
	{"Log", nil, func(c *c20Call) []string { return bitsSig(d128.Log(c.X.Dec())) }},
	{"Log2", nil, func(c *c20Call) []string { return bitsSig(d128.Log2(c.X.Dec())) }},
	{"Log10", nil, func(c *c20Call) []string { return bitsSig(d128.Log10(c.X.Dec())) }},
	{"Log1p", nil, func(c *c20Call) []string { return bitsSig(d128.Log1p(c.X.Dec())) }},
	{"Frexp", nil, func(c *c20Call) []string { f, e := d128.Frexp(c.X.Dec()); return append(bitsSig(f), fmt.Sprint(e)) }},
	{"Ldexp", nil, func(c *c20Call) []string { return bitsSig(d128.Ldexp(c.X.Dec(), c.I)) }},
	{"New", nil, func(c *c20Call) []string { return bitsSig(d128.New(c.J, c.I)) }},
	{"Inf", nil, func(c *c20Call) []string { return bitsSig(d128.Inf(c.I)) }},
	{"NaN/E/Pi/Phi", nil, func(c *c20Call) []string { return bitsSig(d128.NaN(), d128.E(), d128.Pi(), d128.Phi()) }},
	{"predicates", nil, func(c *c20Call) []string {
		d := c.X.Dec()
		return []string{fmt.Sprint(d.IsNaN(), d.IsZero(), d.IsInf(c.I), d.Signbit())}
	}},
	// documented panics
	{"Sign", nanArg, func(c *c20Call) []string { return []string{fmt.Sprint(c.X.Dec().Sign())} }},
	{"Payload", notNaNArg, func(c *c20Call) []string {
		p := c.X.Dec().Payload()
		return []string{fmt.Sprint(uint64(p)), p.String()}
	}},
	{"Int", specialArg, func(c *c20Call) []string {
		if n := c.X.Num(); n.Class == ref.Finite && n.Exp > 500 {
			return nil // thousands of digits: exercised by C10, skipped here for cost
		}
		// the receiver's earlier contents change from one execution of the same call to the next (nil, then a
		// pre-loaded value, ...): the result must not depend on them
		var z *big.Int
		if c20Flip.Add(1)&1 == 1 {
			z = new(big.Int).Lsh(big.NewInt(c.J|1), uint(c.I&127))
		}
		return []string{c.X.Dec().Int(z).String()}
	}},
	{"Rat", specialArg, func(c *c20Call) []string {
		if n := c.X.Num(); n.Class == ref.Finite && (n.Exp > 500 || n.Exp < -500) {
			return nil
		}
		var r *big.Rat
		if c20Flip.Add(1)&1 == 1 {
			r = big.NewRat(c.J|1, int64(c.I&1023)+2)
		}
		return []string{c.X.Dec().Rat(r).String()}
	}},
	{"Float", nanArg, func(c *c20Call) []string {
		var f *big.Float
		if c.I > 0 {
			f = new(big.Float).SetPrec(uint(c.I % 2000))
			if f.Prec() != 0 && c20Flip.Add(1)&1 == 1 {
				f.SetFloat64(-1.5) // same precision, different earlier value
			}
		}
		return []string{c.X.Dec().Float(f).Text('p', 0)}
	}},
	{"Int64", nanArg, func(c *c20Call) []string { v, ok := c.X.Dec().Int64(); return []string{fmt.Sprint(v, ok)} }},
	{"Int32", nanArg, func(c *c20Call) []string { v, ok := c.X.Dec().Int32(); return []string{fmt.Sprint(v, ok)} }},
	{"Uint64", nanArg, func(c *c20Call) []string { v, ok := c.X.Dec().Uint64(); return []string{fmt.Sprint(v, ok)} }},
	{"Uint32", nanArg, func(c *c20Call) []string { v, ok := c.X.Dec().Uint32(); return []string{fmt.Sprint(v, ok)} }},
	{"MustParse", func(c *c20Call) (bool, bool) {
		l := classifyLiteral(c.S)
		switch l.Class {
		case litInvalid:
			return true, true
		case litUnclaimed:
			return false, true
		}
		if l.Kind == ref.Finite {
			if _, overflow, _ := l.expected(d128.DefaultRoundingMode % 6); overflow {
				return false, true // out of range: whether MustParse panics is not stated
			}
		}
		return false, false
	}, func(c *c20Call) []string { return bitsSig(d128.MustParse(c.S)) }},
	// conversions
	{"Float64/Float32", nil, func(c *c20Call) []string {
		return []string{fmt.Sprintf("%016x %08x", math.Float64bits(c.X.Dec().Float64()), math.Float32bits(c.X.Dec().Float32()))}
	}},
	{"FromFloat64/32", nil, func(c *c20Call) []string {
		return bitsSig(d128.FromFloat64(math.Float64frombits(uint64(c.J))), d128.FromFloat32(math.Float32frombits(uint32(c.J))))
	}},
	{"FromInt64/32/Uint64/32", nil, func(c *c20Call) []string {
		return bitsSig(d128.FromInt64(c.J), d128.FromInt32(int32(c.J)), d128.FromUint64(uint64(c.J)), d128.FromUint32(uint32(c.J)))
	}},
	{"FromInt", nil, func(c *c20Call) []string {
		i, ok := new(big.Int).SetString(c.S, 10)
		if !ok {
			i = big.NewInt(c.J)
		}
		keep := new(big.Int).Set(i)
		out := bitsSig(d128.FromInt(i))
		if i.Cmp(keep) != 0 {
			panic("IMPURE: FromInt modified its argument")
		}
		return out
	}},
	{"FromRat", nil, func(c *c20Call) []string {
		n, ok1 := new(big.Int).SetString(c.S, 10)
		dn, ok2 := new(big.Int).SetString(c.T, 10)
		if !ok1 {
			n = big.NewInt(c.J)
		}
		if !ok2 || dn.Sign() == 0 {
			dn = big.NewInt(int64(c.I)*2 + 1)
		}
		r := new(big.Rat).SetFrac(n, dn)
		keep := new(big.Rat).Set(r)
		out := bitsSig(d128.FromRat(r))
		if r.Cmp(keep) != 0 {
			panic("IMPURE: FromRat modified its argument")
		}
		return out
	}},
	{"FromFloat", nil, func(c *c20Call) []string {
		f := new(big.Float).SetPrec(uint(c.B) + 1).SetInt64(c.J)
		e := c.I
		if e > 40000 {
			e = 40000
		}
		if e < -40000 {
			e = -40000
		}
		f.SetMantExp(f, e)
		if c.Neg && c.J == 0 {
			f.SetInf(c.I < 0)
		}
		keep := new(big.Float).Copy(f)
		out := bitsSig(d128.FromFloat(f))
		if f.Cmp(keep) != 0 || f.Prec() != keep.Prec() {
			panic("IMPURE: FromFloat modified its argument")
		}
		return out
	}},
	// text and binary
	{"Parse", nil, func(c *c20Call) []string { d, err := d128.Parse(c.S); return append(bitsSig(d), errStr(err)) }},
	{"UnmarshalText", nil, func(c *c20Call) []string {
		data := []byte(c.S)
		d := c.X.Dec()
		err := d.UnmarshalText(data)
		if string(data) != c.S {
			panic("IMPURE: UnmarshalText modified its input")
		}
		return append(bitsSig(d), selfContained("UnmarshalText", data, err))
	}},
	{"UnmarshalJSON", nil, func(c *c20Call) []string {
		data := []byte(c.S)
		d := c.X.Dec()
		err := d.UnmarshalJSON(data)
		if string(data) != c.S {
			panic("IMPURE: UnmarshalJSON modified its input")
		}
		return append(bitsSig(d), selfContained("UnmarshalJSON", data, err))
	}},
	{"UnmarshalBinary", nil, func(c *c20Call) []string {
		data := []byte(c.S)
		d := c.X.Dec()
		err := d.UnmarshalBinary(data)
		if string(data) != c.S {
			panic("IMPURE: UnmarshalBinary modified its input")
		}
		return append(bitsSig(d), selfContained("UnmarshalBinary", data, err))
	}},
	{"Sscan", nil, func(c *c20Call) []string {
		var d d128.Decimal
		n, err := fmt.Sscan(c.S, &d)
		return append(bitsSig(d), fmt.Sprint(n), errStr(err))
	}},
	{"Sscanf", nil, func(c *c20Call) []string {
		var d d128.Decimal
		n, err := fmt.Sscanf(c.S, "%"+string(rune(c.B)), &d)
		return append(bitsSig(d), fmt.Sprint(n), errStr(err))
	}},
	{"Compose", nil, func(c *c20Call) []string {
		data := []byte(c.S)
		d := c.X.Dec()
		err := d.Compose(c.B, c.Neg, data, int32(c.J))
		if string(data) != c.S {
			panic("IMPURE: Compose modified its input")
		}
		return append(bitsSig(d), selfContained("Compose", data, err))
	}},
	{"Decompose", nil, func(c *c20Call) []string {
		var buf []byte
		if c.I >= 0 {
			buf = make([]byte, c.I%40)
			// what the scratch buffer still holds differs from one execution of the same call to the next
			fill := byte(c20Flip.Add(1))*0x5b | 1
			for i := range buf {
				buf[i] = fill
			}
		}
		form, neg, coef, exp := c.X.Dec().Decompose(buf)
		return []string{fmt.Sprint(form, neg, exp), owned(coef)}
	}},
	{"MarshalBinary/Text/JSON", nil, func(c *c20Call) []string {
		d := c.X.Dec()
		b, e1 := d.MarshalBinary()
		t, e2 := d.MarshalText()
		j, e3 := d.MarshalJSON()
		return []string{owned(b), errStr(e1), owned(t), errStr(e2), owned(j), errStr(e3)}
	}},
	{"String", nil, func(c *c20Call) []string { return []string{c.X.Dec().String()} }},
	{"Format", nil, func(c *c20Call) []string { return []string{d128.Format(c.X.Dec(), c.B, c.I)} }},
	{"Append", nil, func(c *c20Call) []string {
		var dst []byte
		if c.T != "" {
			dst = []byte(c.T)
		}
		return []string{owned(d128.Append(dst, c.X.Dec(), c.B, c.I))}
	}},
	{"Decimal.Append", nil, func(c *c20Call) []string {
		var pre []byte
		if c.T != "" {
			pre = []byte(c.T)
		}
		out := c.X.Dec().Append(pre, c.S)
		if string(pre) != c.T {
			panic("IMPURE: Decimal.Append modified the caller's bytes")
		}
		return []string{owned(out[len(pre):])}
	}},
	{"Sprintf", nil, func(c *c20Call) []string { return []string{fmt.Sprintf(c.S, c.X.Dec(), c.Y.Dec())} }},
	{"Sprintf-verb", nil, func(c *c20Call) []string {
		return []string{fmt.Sprintf("%"+c.T+string(rune(c.B)), c.X.Dec())}
	}},
	{"RoundingMode.String/Payload.String", nil, func(c *c20Call) []string {
		return []string{mode(c).String(), d128.Payload(uint64(c.J)).String()}
	}},
}

var c20Index = func() map[string]*c20Entry {
	m := map[string]*c20Entry{}
	for i := range c20Entries {
		m[c20Entries[i].name] = &c20Entries[i]
	}
	return m
}()

// exec runs one call, converting a panic into (panicked, message).
func (c *c20Call) exec() (out []string, panicked bool, msg string) {
	e := c20Index[c.Op]
	defer func() {
		if r := recover(); r != nil {
			panicked, msg = true, fmt.Sprint(r)
		}
	}()
	return e.run(c), false, ""
}

func (c *c20Call) String() string {
	b, _ := json.Marshal(c)
	return abbr(string(b))
}

type c20Args struct {
	Call    c20Call
	Default uint8 // DefaultRoundingMode during the call (any byte value)
}

var c20 = Register("C20", "C20.call", func(a c20Args) *Violation {
	st := S("C20", "call")
	st.Eval(1)
	c := a.Call
	e := c20Index[c.Op]
	if e == nil {
		return nil
	}
	old := d128.DefaultRoundingMode
	d128.DefaultRoundingMode = d128.RoundingMode(a.Default)
	defer func() { d128.DefaultRoundingMode = old }()

	earlier := c.X.Dec().String() // a string handed out before the call must stay intact
	earlierCopy := strings.Clone(earlier)

	must, may := false, false
	if e.docPanic != nil {
		must, may = e.docPanic(&c)
	}
	out1, p1, msg1 := c.exec()
	if d128.DefaultRoundingMode != d128.RoundingMode(a.Default) {
		return violf("%s changed DefaultRoundingMode from %d to %d", c.String(), a.Default, d128.DefaultRoundingMode)
	}
	if p1 && strings.HasPrefix(msg1, "IMPURE:") {
		return violf("%s: %s", c.String(), msg1)
	}
	if p1 && !may {
		return violf("%s panicked: %s", c.String(), abbr(msg1))
	}
	if !p1 && must {
		return violf("%s did not panic although the documentation says it does (returned %v)", c.String(), out1)
	}
	out2, p2, _ := c.exec()
	if p1 != p2 || strings.Join(out1, "\x00") != strings.Join(out2, "\x00") {
		return violf("%s is not deterministic: %v (panic %v) then %v (panic %v)", c.String(), out1, p1, out2, p2)
	}
	if earlier != earlierCopy {
		return violf("%s changed a string returned earlier by String(): %q became %q", c.String(), earlierCopy, earlier)
	}
	// "a deterministic function of the arguments and DefaultRoundingMode": the same call made under another value of
	// the variable in between must not change what it returns under this one (a result remembered without the mode)
	if !p1 {
		d128.DefaultRoundingMode = d128.RoundingMode((int(a.Default) + 1 + int(hashString(c.Op)%5)) % 6)
		_, _, _ = c.exec()
		d128.DefaultRoundingMode = d128.RoundingMode(a.Default)
		out3, p3, _ := c.exec()
		if p3 || strings.Join(out1, "\x00") != strings.Join(out3, "\x00") {
			return violf("%s under DefaultRoundingMode=%d gave %v, and %v (panic %v) after the same call had been made under another DefaultRoundingMode", c.String(), a.Default, out1, out3, p3)
		}
		// the other direction: the answer given right after the call was made under another mode (out3 above came
		// after the call under that mode) must still be the answer once an unrelated call of the same entry point
		// has been made in between (which displaces whatever a last-call memo remembered)
		other := c
		other.X, other.Y = D{c.X.Hi, c.X.Lo ^ 0x5a5a}, D{c.Y.Hi ^ 1<<63, c.Y.Lo}
		other.S, other.T = c.S+"1", c.T+"1"
		other.J++
		func() {
			defer func() { _ = recover() }()
			_, _, _ = other.exec()
		}()
		out4, p4, _ := c.exec()
		if p4 || strings.Join(out3, "\x00") != strings.Join(out4, "\x00") {
			return violf("%s under DefaultRoundingMode=%d gave %v right after the same call under another DefaultRoundingMode, and %v (panic %v) once another call had been made in between", c.String(), a.Default, out3, out4, p4)
		}
	}
	st.Class(c.Op)
	if p1 {
		st.Class("documented-panic")
	}
	nx := c.X.Num()
	if nx.Class == ref.Finite && !nx.IsZero() {
		st.NT(hashString(c.String())^uint64(a.Default), func() any { return map[string]any{"call": c.String(), "default_mode": a.Default, "panicked": p1} })
	}
	return nil
})

// ---- concurrency -----------------------------------------------------------------------

type c20ConcArgs struct {
	Calls      []c20Call
	Goroutines int
	Rounds     int
}

var c20conc = Register("C20", "C20.concurrent", func(a c20ConcArgs) *Violation {
	st := S("C20", "concurrent")
	st.Eval(1)
	if len(a.Calls) == 0 || a.Goroutines < 2 {
		return nil
	}
	for i := range a.Calls {
		if c20Index[a.Calls[i].Op] == nil {
			return nil
		}
	}
	// a case that makes the race detector abort the process is recovered by the driver from this file
	inflight := ""
	if dir := os.Getenv("VERIF_OUT"); dir != "" {
		inflight = filepath.Join(dir, "inflight-C20.concurrent.json")
		raw, _ := json.Marshal(a)
		b, _ := json.MarshalIndent(ReplayFile{Property: "C20", Check: "C20.concurrent", Args: raw, Message: "process aborted while this concurrent case was running (data race reported by the race detector, or crash)"}, "", " ")
		_ = os.WriteFile(inflight, b, 0o644)
	}
	type res struct {
		out []string
		p   bool
	}
	want := make([]res, len(a.Calls))
	for i := range a.Calls {
		o, p, _ := a.Calls[i].exec()
		want[i] = res{o, p}
	}
	var wg sync.WaitGroup
	var mu sync.Mutex
	var first *Violation
	start := make(chan struct{})
	for g := 0; g < a.Goroutines; g++ {
		wg.Add(1)
		go func(g int) {
			defer wg.Done()
			<-start
			n := len(a.Calls)
			for r := 0; r < max(a.Rounds, 1); r++ {
				for k := 0; k < n; k++ {
					// every goroutine walks the shared list in its own order
					i := (k*(2*g+1) + g + r) % n
					o, p, _ := a.Calls[i].exec()
					if p != want[i].p || strings.Join(o, "\x00") != strings.Join(want[i].out, "\x00") {
						mu.Lock()
						if first == nil {
							first = violf("concurrent %s gave %v (panic %v), sequentially %v (panic %v)", a.Calls[i].String(), o, p, want[i].out, want[i].p)
						}
						mu.Unlock()
						return
					}
				}
			}
		}(g)
	}
	close(start)
	wg.Wait()
	if inflight != "" {
		_ = os.Remove(inflight)
	}
	if first != nil {
		return first
	}
	st.ClassN("calls-executed-concurrently", int64(len(a.Calls)*a.Goroutines*max(a.Rounds, 1)))
	st.NT(hashString(fmt.Sprint(a)), func() any {
		ops := make([]string, 0, len(a.Calls))
		for _, c := range a.Calls {
			ops = append(ops, c.Op)
		}
		return map[string]any{"goroutines": a.Goroutines, "rounds": a.Rounds, "ops": ops}
	})
	return nil
})

// ---- generators --------------------------------------------------------------------------

var hostileInts = []int{0, 1, -1, 2, 34, 35, 36, -35, 40, -40, 6111, 6112, -6111, 6176, -6176, 6177, -6177, 7000, -7000, 100000, -100000,
	math.MaxInt, math.MinInt, math.MaxInt - 1, math.MinInt + 1, math.MaxInt32, math.MinInt32, 1<<15 - 1, 1 << 15, -(1 << 15), 1 << 16, 1<<16 + 1, 99999, 100001}

func genHostileInt(t *rapid.T) int {
	switch ir(t, 0, 3, "intKind") {
	case 0:
		return hostileInts[ir(t, 0, len(hostileInts)-1, "hostile")]
	case 1:
		return ir(t, -50, 50, "small")
	case 2:
		return ir(t, -7000, 7000, "mid")
	}
	return int(int64(u64(t, "any")) >> uint(ir(t, 0, 48, "shift")))
}

func genHostileString(t *rapid.T) string {
	switch ir(t, 0, 9, "strKind") {
	case 0:
		return string(ubytes(t, ir(t, 0, 40, "n"), "raw"))
	case 1:
		return genInvalidCandidate(t)
	case 2, 3:
		s := genValidLiteral(t, false)
		return s
	case 4:
		// long numerals and long separator runs
		switch ir(t, 0, 3, "long") {
		case 0:
			return strings.Repeat("9", ir(t, 1000, 70000, "n"))
		case 1:
			return "0." + strings.Repeat("0", ir(t, 1000, 70000, "n")) + "1"
		case 2:
			return "1" + strings.Repeat("_", ir(t, 1, 5000, "n")) + "1"
		default:
			return "1e" + strings.Repeat("9", ir(t, 1, 5000, "n"))
		}
	case 5:
		return genJSONNumber(t)
	case 6:
		return []string{"null", "true", `"1"`, "[1]", "{}", "", " ", "\x00", "%", "%!", "%%", "i", "in", "inx", "-i", "+in", "n", "na", "nax", "+n", "-na", "I", "N", "  inf", "inf inf", "nan5", "1 2"}[ir(t, 0, 26, "fixed")]
	case 7:
		// 16-byte and near-16-byte binary strings
		return string(ubytes(t, ir(t, 14, 18, "n"), "bin"))
	case 8:
		// decimal integers for FromInt / FromRat
		return genBigInt(t).String()
	}
	return genSpec(t)
}

// genFormatString draws a fmt format with exactly two verbs (for X and Y), from a grammar and from noise.
func genFormatString(t *rapid.T) string {
	verbs := "eEfFgGvsdqxXtTpbcoU%"
	one := func() string {
		var b strings.Builder
		b.WriteByte('%')
		fl := "+-# 0"
		for k := ir(t, 0, 3, "nflags"); k > 0; k-- {
			b.WriteByte(fl[ir(t, 0, 4, "flag")])
		}
		switch ir(t, 0, 4, "wid") {
		case 1:
			b.WriteString(fmt.Sprint(ir(t, 0, 60, "w")))
		case 2:
			b.WriteString(fmt.Sprint([]int{99999, 100000, 100001, 1000, 65536}[ir(t, 0, 4, "bigw")]))
		}
		switch ir(t, 0, 4, "prec") {
		case 1:
			b.WriteString("." + fmt.Sprint(ir(t, 0, 60, "p")))
		case 2:
			b.WriteString("." + fmt.Sprint([]int{99999, 100000, 100001, 1000, 65536}[ir(t, 0, 4, "bigp")]))
		case 3:
			b.WriteString(".")
		}
		b.WriteByte(verbs[ir(t, 0, len(verbs)-2, "verb")])
		return b.String()
	}
	return one() + "|" + one()
}

// forceEntry, when >= 0, makes genCall produce calls of that one entry point.
var forceEntry = -1

func genCall(t *rapid.T, forConcurrency bool) c20Call {
	ei := ir(t, 0, len(c20Entries)-1, "entry")
	if forceEntry >= 0 {
		ei = forceEntry
	}
	e := c20Entries[ei]
	c := c20Call{Op: e.name}
	c.X, c.Y = genAny(t), genAny(t)
	if ir(t, 0, 2, "related") == 0 {
		c.Y = genNearValue(t, c.X)
	}
	// the arithmetic entry points also get the operand pairs the correctness checks construct (ties, near-ties,
	// alignment gaps, products and quotients steered to the internal thresholds): a panic or a hang hides behind
	// the same thin conditions as a wrong digit
	if ir(t, 0, 2, "constructed") == 0 {
		switch {
		case strings.HasPrefix(e.name, "Add") || strings.HasPrefix(e.name, "Sub"):
			c.X, c.Y = genAddPair(t)
		case strings.HasPrefix(e.name, "Mul") || (strings.HasPrefix(e.name, "Quo") && !strings.HasPrefix(e.name, "QuoRem")):
			c.X, c.Y, _ = genMulQuoPair(t)
		case strings.HasPrefix(e.name, "QuoRem"):
			c.X, c.Y = genQuoRemPair(t)
		case strings.HasPrefix(e.name, "Pow"):
			c.X, c.Y = genPowPair(t)
		case e.name == "Sqrt":
			c.X = genRootArg(t, false)
		case e.name == "Cbrt":
			c.X = genRootArg(t, true)
		}
	}
	c.I = genHostileInt(t)
	c.J = int64(u64(t, "J")) >> uint(ir(t, 0, 63, "Jshift"))
	if ir(t, 0, 3, "Jbound") == 0 {
		c.J = []int64{0, 1, -1, math.MaxInt64, math.MinInt64, math.MaxInt32, math.MinInt32, 6111, -6176, 1 << 31}[ir(t, 0, 9, "Jb")]
	}
	c.M = uint8(ir(t, 0, 5, "mode"))
	if ir(t, 0, 4, "badMode") == 0 {
		c.M = uint8(ir(t, 6, 255, "invalidMode"))
	}
	c.B = "eEfFgGv"[ir(t, 0, 6, "verbByte")]
	if ir(t, 0, 3, "anyByte") == 0 {
		c.B = uint8(ir(t, 0, 255, "byte"))
	}
	c.Neg = ir(t, 0, 1, "neg") == 1
	switch e.name {
	case "Sprintf":
		c.S = genFormatString(t)
	case "Sprintf-verb":
		c.T = strings.TrimRight(genSpec(t), "eEfFgG")
	case "Decimal.Append":
		c.S = genSpec(t)
		if ir(t, 0, 3, "noise") == 0 {
			c.S = genHostileString(t)
		}
		c.T = []string{"", "pre", "xxxxxxxxxxxxxxxxxxxxxxxxxxxxxxxxxxxxxxxx"}[ir(t, 0, 2, "pre")]
	case "Format", "Append":
		// precisions are claimed up to 100000 (a precision is a byte count, so larger ones are out of the stated domain)
		switch ir(t, 0, 5, "precKind") {
		case 0:
			c.I = []int{100000, 99999, 65536, 1000}[ir(t, 0, 3, "hp")]
		case 1:
			c.I = -ir(t, 1, 5, "negPrec")
		default:
			c.I = ir(t, -1, 60, "prec")
		}
		if e.name == "Append" {
			c.T = []string{"", "pre"}[ir(t, 0, 1, "pre")]
		}
	case "Compose":
		c.B = uint8(ir(t, 0, 3, "form"))
		if ir(t, 0, 7, "anyForm") == 0 {
			c.B = uint8(ir(t, 0, 255, "form255"))
		}
		p := genParts(t)
		c.S, c.J, c.Neg = string(p.Coef), int64(p.Exp), p.Neg
	case "FromRat":
		c.S, c.T = genBigInt(t).String(), genBigInt(t).String()
	case "FromInt":
		c.S = genBigInt(t).String()
	default:
		c.S = genHostileString(t)
	}
	if forConcurrency {
		// keep the concurrent workload cheap: no 70k-digit strings, no 100000-wide padding
		if len(c.S) > 300 {
			c.S = c.S[:300]
		}
		if c.I > 7000 || c.I < -7000 {
			c.I %= 7000
		}
	}
	return c
}

func TestC20_Call(t *testing.T) {
	runRapid(t, 30000, 2000000, func(t *rapid.T) {
		a := c20Args{Call: genCall(t, false), Default: uint8(ir(t, 0, 5, "default"))}
		if ir(t, 0, 9, "badDefault") == 0 {
			a.Default = uint8(ir(t, 6, 255, "invalidDefault"))
		}
		c20.Run(t, a)
	})
}

// TestC20_Arith gives the arithmetic entry points, which are 14 of the 82, a budget of their own with operands
// from the correctness checks' constructors only (totality, purity and determinism oracles as in TestC20_Call).
func TestC20_Arith(t *testing.T) {
	names := []string{"Add", "Sub", "Mul", "Quo", "Pow", "QuoRem", "AddWithMode", "SubWithMode", "MulWithMode", "QuoWithMode", "PowWithMode", "QuoRemWithMode", "Sqrt", "Cbrt"}
	runRapid(t, 30000, 1000000, func(t *rapid.T) {
		c := c20Call{Op: names[ir(t, 0, len(names)-1, "op")], M: uint8(ir(t, 0, 5, "mode")), B: 'e'}
		switch {
		case strings.HasPrefix(c.Op, "Add") || strings.HasPrefix(c.Op, "Sub"):
			c.X, c.Y = genAddPair(t)
		case strings.HasPrefix(c.Op, "QuoRem"):
			c.X, c.Y = genQuoRemPair(t)
		case strings.HasPrefix(c.Op, "Mul") || strings.HasPrefix(c.Op, "Quo"):
			c.X, c.Y, _ = genMulQuoPair(t)
		case strings.HasPrefix(c.Op, "Pow"):
			c.X, c.Y = genPowPair(t)
		default:
			c.X = genRootArg(t, c.Op == "Cbrt")
		}
		if rapid.Bool().Draw(t, "swap") {
			c.X, c.Y = c.Y, c.X
		}
		c20.Run(t, c20Args{Call: c, Default: uint8(ir(t, 0, 5, "default"))})
	})
}

func TestC20_Concurrent(t *testing.T) {
	runRapid(t, 1500, 60000, func(t *rapid.T) {
		n := ir(t, 2, 24, "calls")
		a := c20ConcArgs{Goroutines: ir(t, 2, 16, "goroutines"), Rounds: ir(t, 1, 3, "rounds")}
		// a third of the lists are bursts: every call goes to the same entry point with different arguments, for
		// more rounds. State shared between the calls of ONE function (a last-result memo kept in two atomics, a
		// parsed-spec cache whose pointer escapes its lock) is invisible to the race detector when every access is
		// atomic or locked, and only mixes up results when different arguments meet in that function at once.
		burst := ir(t, 0, 2, "burst") == 0
		if burst {
			forceEntry = ir(t, 0, len(c20Entries)-1, "burstEntry")
			a.Rounds = ir(t, 4, 12, "burstRounds")
			defer func() { forceEntry = -1 }()
		}
		for i := 0; i < n; i++ {
			a.Calls = append(a.Calls, genCall(t, true))
		}
		forceEntry = -1
		if burst {
			S("C20", "concurrent").Class("burst-on-one-entry-point")
		}
		c20conc.Run(t, a)
	})
}

// TestC20_ExponentSweep calls every entry point of the table on operands at
// every exponent of the format (quick: all exponents within 70 of zero and of
// both ends, the rest with a stride; thorough: all 12288), for a few
// coefficient shapes and both signs. Table look-ups indexed by an exponent or a
// digit count are the typical place for a panic confined to one exponent.
func TestC20_ExponentSweep(t *testing.T) {
	st := S("C20", "exponent-sweep")
	stride := 13
	if cfg.tier == "thorough" {
		stride = 1
	}
	off := int(splitmix(cfg.seed) % uint64(stride))
	coefs := []*big.Int{big.NewInt(1), big.NewInt(15), new(big.Int).Sub(ref.Pow10(34), ref.One), ref.Cmax}
	n := 0
	idx := 0
	for e := ref.Emin; e <= ref.Emax; e++ {
		dense := abs(e) <= 70 || e-ref.Emin <= 70 || ref.Emax-e <= 70
		if !dense && (e-ref.Emin)%stride != off {
			continue
		}
		idx++
		if idx%cfg.shards != cfg.shard {
			continue
		}
		for ci, c := range coefs {
			for _, neg := range []bool{false, true} {
				x := DFin(neg, c, e)
				y := DFin(!neg, coefs[(ci+1)%len(coefs)], e)
				for i := range c20Entries {
					en := &c20Entries[i]
					a := c20Args{Call: c20Call{Op: en.name, X: x, Y: y, I: -e, J: int64(e), M: uint8(ci), S: "1e" + itoa64(int64(e)), T: "", B: "eEfgG"[ci%5], Neg: neg}, Default: 0}
					switch en.name {
					case "Format", "Append":
						a.Call.I = ci * 11
					case "Sprintf":
						a.Call.S = "%v|%.3e"
					case "Decimal.Append":
						a.Call.S = "12.4g"
					}
					if v := c20.Eval(a); v != nil {
						c20.writeFail(a, v)
						t.Fatalf("%s", v.Msg)
					}
					n++
				}
			}
		}
	}
	st.Eval(n)
	if stride == 1 {
		st.SetExhaustive()
		st.Note("enumerated", "every entry point x every exponent -6176..6111 x 4 coefficient shapes x 2 signs")
	}
}
