package harness

import (
	"encoding/binary"
	"encoding/json"
	"os"
	"path/filepath"
	"sort"
	"sync"
)

// Stat collects what one sub-check actually explored in this process.
type Stat struct {
	mu        sync.Mutex
	Prop      string           `json:"property"`
	Sub       string           `json:"sub"`
	Evals     int64            `json:"evaluations"`
	NTCount   int64            `json:"nontrivial"`
	Classes   map[string]int64 `json:"classes,omitempty"`
	Excluded  map[string]int64 `json:"excluded,omitempty"`
	Samples   []sample         `json:"samples,omitempty"`
	Notes     map[string]any   `json:"notes,omitempty"`
	Exhaust   bool             `json:"exhaustive,omitempty"`
	HashFile  string           `json:"hash_file,omitempty"`
	salt      uint64
	hashes    []uint64
	compactAt int
}

type sample struct {
	H    uint64 `json:"h"`
	Case any    `json:"case"`
}

const maxSamples = 4

var (
	statMu sync.Mutex
	stats  = map[string]*Stat{}
)

// S returns the collector for (property, sub-check).
func S(prop, sub string) *Stat {
	statMu.Lock()
	defer statMu.Unlock()
	k := prop + "/" + sub
	s := stats[k]
	if s == nil {
		s = &Stat{Prop: prop, Sub: sub, Classes: map[string]int64{}, Excluded: map[string]int64{}, salt: strHash(k)}
		stats[k] = s
	}
	return s
}

// Eval counts n evaluated cases.
func (s *Stat) Eval(n int) {
	s.mu.Lock()
	s.Evals += int64(n)
	s.mu.Unlock()
}

// NT records one non-trivial case with identity hash h; mk builds the
// human-readable sample only when the case enters the bottom-k-by-hash sample
// (a deterministic uniform sample of the distinct non-trivial cases).
func (s *Stat) NT(h uint64, mk func() any) {
	h = splitmix(h ^ s.salt)
	s.mu.Lock()
	defer s.mu.Unlock()
	s.NTCount++
	s.hashes = append(s.hashes, h)
	if len(s.hashes) >= max(1<<22, s.compactAt) {
		s.compact()
		// amortise: the next compaction waits until the list has doubled (a shard with more than 2^22 distinct
		// cases would otherwise sort the whole list again on every single case)
		s.compactAt = 2 * len(s.hashes)
	}
	if mk == nil {
		return
	}
	if len(s.Samples) < maxSamples || h < s.Samples[len(s.Samples)-1].H {
		for _, e := range s.Samples {
			if e.H == h {
				return
			}
		}
		s.Samples = append(s.Samples, sample{H: h, Case: mk()})
		sort.Slice(s.Samples, func(i, j int) bool { return s.Samples[i].H < s.Samples[j].H })
		if len(s.Samples) > maxSamples {
			s.Samples = s.Samples[:maxSamples]
		}
	}
}

func (s *Stat) compact() {
	sort.Slice(s.hashes, func(i, j int) bool { return s.hashes[i] < s.hashes[j] })
	out := s.hashes[:0]
	var last uint64
	for i, h := range s.hashes {
		if i == 0 || h != last {
			out = append(out, h)
		}
		last = h
	}
	s.hashes = out
}

// Class counts one occurrence of a named case class.
func (s *Stat) Class(name string) {
	s.mu.Lock()
	s.Classes[name]++
	s.mu.Unlock()
}

func (s *Stat) ClassN(name string, n int64) {
	s.mu.Lock()
	s.Classes[name] += n
	s.mu.Unlock()
}

// Exclude counts a generated case that fell in the region of an active known
// finding and was therefore not subjected to the full oracle.
func (s *Stat) Exclude(key string) {
	s.mu.Lock()
	s.Excluded[key]++
	s.mu.Unlock()
}

func (s *Stat) Note(k string, v any) {
	s.mu.Lock()
	if s.Notes == nil {
		s.Notes = map[string]any{}
	}
	s.Notes[k] = v
	s.mu.Unlock()
}

// NoteMax keeps the maximum of a float-valued note.
func (s *Stat) NoteMax(k string, v float64) {
	s.mu.Lock()
	if s.Notes == nil {
		s.Notes = map[string]any{}
	}
	if old, ok := s.Notes[k].(float64); !ok || v > old {
		s.Notes[k] = v
	}
	s.mu.Unlock()
}

func (s *Stat) SetExhaustive() { s.mu.Lock(); s.Exhaust = true; s.mu.Unlock() }

// hashWords mixes words into a case identity.
func hashWords(ws ...uint64) uint64 {
	h := uint64(0xcbf29ce484222325)
	for _, w := range ws {
		h = splitmix(h ^ w)
	}
	return h
}

func hashBytes(b []byte) uint64 {
	h := uint64(0xcbf29ce484222325)
	for len(b) >= 8 {
		h = splitmix(h ^ binary.LittleEndian.Uint64(b))
		b = b[8:]
	}
	var tail [8]byte
	copy(tail[:], b)
	return splitmix(h ^ binary.LittleEndian.Uint64(tail[:]) ^ uint64(len(b))<<56)
}

func hashString(s string) uint64 { return hashBytes([]byte(s)) }

// dumpStats writes stats.json and one sorted hash file per sub-check into
// VERIF_OUT.
func dumpStats() {
	dir := os.Getenv("VERIF_OUT")
	if dir == "" {
		return
	}
	statMu.Lock()
	defer statMu.Unlock()
	keys := make([]string, 0, len(stats))
	for k := range stats {
		keys = append(keys, k)
	}
	sort.Strings(keys)
	var all []*Stat
	for i, k := range keys {
		s := stats[k]
		s.compact()
		buf := make([]byte, 8*len(s.hashes))
		for j, h := range s.hashes {
			binary.LittleEndian.PutUint64(buf[8*j:], h)
		}
		s.HashFile = "hashes-" + itoa(i) + ".bin"
		_ = os.WriteFile(filepath.Join(dir, s.HashFile), buf, 0o644)
		all = append(all, s)
	}
	b, err := json.MarshalIndent(all, "", " ")
	if err != nil {
		// a sample that cannot be encoded must not lose the counters
		for _, s := range all {
			s.Samples = []sample{{Case: "sample not JSON-encodable: " + err.Error()}}
		}
		b, _ = json.MarshalIndent(all, "", " ")
	}
	_ = os.WriteFile(filepath.Join(dir, "stats.json"), b, 0o644)
}

func itoa(i int) string {
	if i == 0 {
		return "0"
	}
	var b []byte
	for i > 0 {
		b = append([]byte{byte('0' + i%10)}, b...)
		i /= 10
	}
	return string(b)
}
