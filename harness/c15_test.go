package harness

import (
	"math"
	"math/big"
	"testing"

	d128 "github.com/woodsbury/decimal128"
	"pgregory.net/rapid"

	"verif/harness/ref"
)

// C15 — special operands follow IEEE 754 / Go math conventions; NaNs carry a cause.

type c15Op struct {
	name    string
	arity   int
	dec     func(x, y d128.Decimal) []d128.Decimal
	flt     func(x, y float64) []float64
	payload string // operation name in the payload of an invalid-operation NaN ("" = the operation creates none)
	signOp  bool   // Abs/Neg: do not propagate NaN bits unchanged
	inexact bool   // result of finite operands may legitimately over/underflow differently in float64
}

func one(d d128.Decimal) []d128.Decimal { return []d128.Decimal{d} }
func onef(f float64) []float64          { return []float64{f} }

var c15Ops = []c15Op{
	{name: "Add", arity: 2, payload: "Add", dec: func(x, y d128.Decimal) []d128.Decimal { return one(x.Add(y)) }, flt: func(x, y float64) []float64 { return onef(x + y) }},
	{name: "Sub", arity: 2, payload: "Sub", dec: func(x, y d128.Decimal) []d128.Decimal { return one(x.Sub(y)) }, flt: func(x, y float64) []float64 { return onef(x - y) }},
	{name: "Mul", arity: 2, payload: "Mul", dec: func(x, y d128.Decimal) []d128.Decimal { return one(x.Mul(y)) }, flt: func(x, y float64) []float64 { return onef(x * y) }},
	{name: "Quo", arity: 2, payload: "Quo", dec: func(x, y d128.Decimal) []d128.Decimal { return one(x.Quo(y)) }, flt: func(x, y float64) []float64 { return onef(x / y) }},
	{name: "AddWithMode", arity: 2, payload: "Add", dec: func(x, y d128.Decimal) []d128.Decimal { return one(x.AddWithMode(y, d128.ToZero)) }, flt: func(x, y float64) []float64 { return onef(x + y) }},
	{name: "SubWithMode", arity: 2, payload: "Sub", dec: func(x, y d128.Decimal) []d128.Decimal { return one(x.SubWithMode(y, d128.AwayFromZero)) }, flt: func(x, y float64) []float64 { return onef(x - y) }},
	{name: "MulWithMode", arity: 2, payload: "Mul", dec: func(x, y d128.Decimal) []d128.Decimal { return one(x.MulWithMode(y, d128.ToPositiveInf)) }, flt: func(x, y float64) []float64 { return onef(x * y) }},
	{name: "QuoWithMode", arity: 2, payload: "Quo", dec: func(x, y d128.Decimal) []d128.Decimal { return one(x.QuoWithMode(y, d128.ToNegativeInf)) }, flt: func(x, y float64) []float64 { return onef(x / y) }},
	{name: "QuoRem", arity: 2, payload: "QuoRem", dec: func(x, y d128.Decimal) []d128.Decimal { q, r := x.QuoRem(y); return []d128.Decimal{q, r} },
		flt: func(x, y float64) []float64 { return []float64{math.Trunc(x / y), math.Mod(x, y)} }},
	{name: "Pow", arity: 2, payload: "Pow", inexact: true, dec: func(x, y d128.Decimal) []d128.Decimal { return one(x.Pow(y)) }, flt: func(x, y float64) []float64 { return onef(math.Pow(x, y)) }},
	{name: "PowWithMode", arity: 2, payload: "Pow", inexact: true, dec: func(x, y d128.Decimal) []d128.Decimal { return one(x.PowWithMode(y, d128.ToNearestAway)) }, flt: func(x, y float64) []float64 { return onef(math.Pow(x, y)) }},
	{name: "Min", arity: 2, dec: func(x, y d128.Decimal) []d128.Decimal { return one(d128.Min(x, y)) }, flt: func(x, y float64) []float64 { return onef(math.Min(x, y)) }},
	{name: "Max", arity: 2, dec: func(x, y d128.Decimal) []d128.Decimal { return one(d128.Max(x, y)) }, flt: func(x, y float64) []float64 { return onef(math.Max(x, y)) }},
	{name: "Sqrt", arity: 1, payload: "Sqrt", dec: func(x, _ d128.Decimal) []d128.Decimal { return one(d128.Sqrt(x)) }, flt: func(x, _ float64) []float64 { return onef(math.Sqrt(x)) }},
	{name: "Cbrt", arity: 1, dec: func(x, _ d128.Decimal) []d128.Decimal { return one(d128.Cbrt(x)) }, flt: func(x, _ float64) []float64 { return onef(math.Cbrt(x)) }},
	{name: "Exp", arity: 1, inexact: true, dec: func(x, _ d128.Decimal) []d128.Decimal { return one(d128.Exp(x)) }, flt: func(x, _ float64) []float64 { return onef(math.Exp(x)) }},
	{name: "Exp2", arity: 1, inexact: true, dec: func(x, _ d128.Decimal) []d128.Decimal { return one(d128.Exp2(x)) }, flt: func(x, _ float64) []float64 { return onef(math.Exp2(x)) }},
	{name: "Exp10", arity: 1, inexact: true, dec: func(x, _ d128.Decimal) []d128.Decimal { return one(d128.Exp10(x)) }, flt: func(x, _ float64) []float64 { return onef(math.Pow(10, x)) }},
	{name: "Expm1", arity: 1, inexact: true, dec: func(x, _ d128.Decimal) []d128.Decimal { return one(d128.Expm1(x)) }, flt: func(x, _ float64) []float64 { return onef(math.Expm1(x)) }},
	{name: "Log", arity: 1, payload: "Log", dec: func(x, _ d128.Decimal) []d128.Decimal { return one(d128.Log(x)) }, flt: func(x, _ float64) []float64 { return onef(math.Log(x)) }},
	{name: "Log2", arity: 1, payload: "Log2", dec: func(x, _ d128.Decimal) []d128.Decimal { return one(d128.Log2(x)) }, flt: func(x, _ float64) []float64 { return onef(math.Log2(x)) }},
	{name: "Log10", arity: 1, payload: "Log10", dec: func(x, _ d128.Decimal) []d128.Decimal { return one(d128.Log10(x)) }, flt: func(x, _ float64) []float64 { return onef(math.Log10(x)) }},
	{name: "Log1p", arity: 1, payload: "Log1p", dec: func(x, _ d128.Decimal) []d128.Decimal { return one(d128.Log1p(x)) }, flt: func(x, _ float64) []float64 { return onef(math.Log1p(x)) }},
	{name: "Ceil", arity: 1, dec: func(x, _ d128.Decimal) []d128.Decimal { return one(d128.Ceil(x)) }, flt: func(x, _ float64) []float64 { return onef(math.Ceil(x)) }},
	{name: "Floor", arity: 1, dec: func(x, _ d128.Decimal) []d128.Decimal { return one(d128.Floor(x)) }, flt: func(x, _ float64) []float64 { return onef(math.Floor(x)) }},
	{name: "Round", arity: 1, dec: func(x, _ d128.Decimal) []d128.Decimal { return one(d128.Round(x)) }, flt: func(x, _ float64) []float64 { return onef(math.Round(x)) }},
	{name: "Trunc", arity: 1, dec: func(x, _ d128.Decimal) []d128.Decimal { return one(d128.Trunc(x)) }, flt: func(x, _ float64) []float64 { return onef(math.Trunc(x)) }},
	{name: "Round(2,ToNearestEven)", arity: 1, dec: func(x, _ d128.Decimal) []d128.Decimal { return one(x.Round(2, d128.ToNearestEven)) }, flt: func(x, _ float64) []float64 { return onef(math.RoundToEven(x*100) / 100) }},
	{name: "Abs", arity: 1, signOp: true, dec: func(x, _ d128.Decimal) []d128.Decimal { return one(d128.Abs(x)) }, flt: func(x, _ float64) []float64 { return onef(math.Abs(x)) }},
	{name: "Neg", arity: 1, signOp: true, dec: func(x, _ d128.Decimal) []d128.Decimal { return one(x.Neg()) }, flt: func(x, _ float64) []float64 { return onef(-x) }},
	{name: "Canonical", arity: 1, signOp: true, dec: func(x, _ d128.Decimal) []d128.Decimal { return one(x.Canonical()) }, flt: func(x, _ float64) []float64 { return onef(x) }},
	{name: "Ldexp(3)", arity: 1, signOp: true, dec: func(x, _ d128.Decimal) []d128.Decimal { return one(d128.Ldexp(x, 3)) }, flt: func(x, _ float64) []float64 { return onef(x * 1000) }},
	{name: "Frexp", arity: 1, signOp: true, dec: func(x, _ d128.Decimal) []d128.Decimal { f, _ := d128.Frexp(x); return one(f) }, flt: func(x, _ float64) []float64 {
		if x == 0 || math.IsInf(x, 0) || math.IsNaN(x) {
			return onef(x)
		}
		return onef(math.Copysign(0.5, x))
	}},
	{name: "FromFloat64(Float64)", arity: 1, signOp: true, dec: func(x, _ d128.Decimal) []d128.Decimal { return one(d128.FromFloat64(x.Float64())) }, flt: func(x, _ float64) []float64 { return onef(x) }},
}

var c15OpIndex = func() map[string]*c15Op {
	m := map[string]*c15Op{}
	for i := range c15Ops {
		m[c15Ops[i].name] = &c15Ops[i]
	}
	return m
}()

func fclass(f float64) string {
	switch {
	case math.IsNaN(f):
		return "NaN"
	case math.IsInf(f, 1):
		return "+Inf"
	case math.IsInf(f, -1):
		return "-Inf"
	case f == 0 && math.Signbit(f):
		return "-0"
	case f == 0:
		return "+0"
	case f < 0:
		return "-finite"
	}
	return "+finite"
}

func dclass(n ref.Num) string {
	s := "+"
	if n.Neg {
		s = "-"
	}
	switch {
	case n.Class == ref.NaN:
		return "NaN"
	case n.Class == ref.Inf:
		return s + "Inf"
	case n.IsZero():
		return s + "0"
	}
	return s + "finite"
}

// payloadClass names an operand the way payload strings do.
func payloadClass(n ref.Num) string {
	s := ""
	if n.Neg {
		s = "-"
	}
	switch {
	case n.Class == ref.Inf:
		return s + "Infinite"
	case n.IsZero():
		return s + "Zero"
	}
	return s + "Finite"
}

// f64Of returns the float64 holding exactly n's value (specials mapped), ok=false otherwise.
func f64Of(n ref.Num) (float64, bool) {
	switch n.Class {
	case ref.NaN:
		return math.NaN(), true
	case ref.Inf:
		if n.Neg {
			return math.Inf(-1), true
		}
		return math.Inf(1), true
	}
	return exactFloat64(n)
}

type c15Args struct {
	Op   string
	X, Y D
}

var c15 = Register("C15", "C15.special", func(a c15Args) *Violation {
	st := S("C15", "special")
	st.Eval(1)
	op := c15OpIndex[a.Op]
	if op == nil {
		return nil
	}
	nx, ny := a.X.Num(), a.Y.Num()
	fx, okx := f64Of(nx)
	fy, oky := f64Of(ny)
	if op.arity == 1 {
		fy, oky, ny = 0, true, ref.Num{Class: ref.Finite, Coef: new(big.Int)}
	}
	if !okx || !oky {
		return nil
	}
	outs := op.dec(a.X.Dec(), a.Y.Dec())
	fouts := op.flt(fx, fy)
	if (op.name == "Min" || op.name == "Max") && (math.IsNaN(fx) || math.IsNaN(fy)) {
		// math.Min(NaN, -Inf) is -Inf; the package documents (and C04 states) NaN if either is NaN
		fouts = []float64{math.NaN()}
	}
	anyNaNIn := nx.Class == ref.NaN || (op.arity == 2 && ny.Class == ref.NaN)
	anySpecial := nx.Class != ref.Finite || nx.IsZero() || (op.arity == 2 && (ny.Class != ref.Finite || ny.IsZero()))
	for i, out := range outs {
		g := ref.Decode(out)
		gc, fc := dclass(g), fclass(fouts[i])
		desc := func() string {
			if op.arity == 1 {
				return op.name + "(" + nx.String() + ")"
			}
			return op.name + "(" + nx.String() + ", " + ny.String() + ")"
		}
		if knownActive("F15-expm1-negzero") && op.name == "Expm1" && nx.IsZero() && nx.Neg {
			st.Exclude("F15-expm1-negzero")
			continue
		}
		if anyNaNIn {
			if fc == "NaN" {
				if gc != "NaN" {
					return violf("%s = %s, want NaN (float64 gives NaN)", desc(), g)
				}
				if !op.signOp {
					// the NaN operand itself is propagated
					if !(out == a.X.Dec() && nx.Class == ref.NaN) && !(op.arity == 2 && out == a.Y.Dec() && ny.Class == ref.NaN) {
						return violf("%s returns a NaN (%s) that is not one of its NaN operands", desc(), DOf(out))
					}
				}
			} else if gc != fc {
				// math.Pow(NaN, 0) = 1, math.Pow(1, NaN) = 1
				return violf("%s = %s, float64 gives %v", desc(), g, fouts[i])
			}
			continue
		}
		// no NaN operand
		if (gc == "NaN") != (fc == "NaN") {
			return violf("%s = %s, float64 gives %v", desc(), g, fouts[i])
		}
		if gc == "NaN" {
			// invalid operation: the payload names the operation and the operand classes
			want := ""
			if op.payload != "" {
				want = op.payload + "(" + payloadClass(nx)
				if op.arity == 2 {
					want += ", " + payloadClass(ny)
				}
				want += ")"
				if got := out.Payload().String(); got != want {
					return violf("%s is an invalid operation; Payload() = %q, want %q", desc(), got, want)
				}
			}
			st.Class("invalid-operation")
			continue
		}
		compare := anySpecial
		if !anySpecial {
			ff := fouts[i]
			if !math.IsInf(ff, 0) && ff != 0 {
				compare = true // finite non-zero float64 result: sign and finiteness are evidence
			} else if ff == 0 && !op.inexact {
				compare = true // exact zero (x-x, Floor(0.5), ...): sign of zero is evidence
			}
		} else if op.inexact && nx.Class == ref.Finite && ny.Class == ref.Finite && !nx.IsZero() && (op.arity == 1 || !ny.IsZero()) {
			compare = !math.IsInf(fouts[i], 0) && fouts[i] != 0
		}
		if compare && gc != fc {
			return violf("%s = %s (%s), float64 %s gives %v (%s)", desc(), g, gc, op.name, fouts[i], fc)
		}
	}
	st.Class(op.name)
	if anySpecial || anyNaNIn {
		st.NT(hashWords(hashString(a.Op), a.X.Hi, a.X.Lo, a.Y.Hi, a.Y.Lo), func() any {
			m := map[string]any{"op": a.Op, "x": nx.String()}
			if op.arity == 2 {
				m["y"] = ny.String()
			}
			return m
		})
	}
	return nil
})

// ---- predicates classify every bit pattern consistently --------------------------

type c15PredArgs struct{ V D }

var c15pred = Register("C15", "C15.predicates", func(a c15PredArgs) *Violation {
	st := S("C15", "predicates")
	st.Eval(1)
	d := a.V.Dec()
	n := a.V.Num()
	isNaN, isInf, isZero := d.IsNaN(), d.IsInf(0), d.IsZero()
	cnt := b2i(isNaN) + b2i(isInf) + b2i(isZero)
	if cnt > 1 {
		return violf("%s: IsNaN=%v IsInf=%v IsZero=%v are not mutually exclusive", a.V, isNaN, isInf, isZero)
	}
	if isNaN != (n.Class == ref.NaN) || isInf != (n.Class == ref.Inf) || isZero != n.IsZero() {
		return violf("%s: IsNaN=%v IsInf=%v IsZero=%v, independent decoder says %s", a.V, isNaN, isInf, isZero, n)
	}
	if d.Signbit() != (a.V.Hi>>63 == 1) {
		return violf("%s: Signbit = %v", a.V, d.Signbit())
	}
	if d.IsInf(1) != (isInf && !d.Signbit()) || d.IsInf(-1) != (isInf && d.Signbit()) {
		return violf("%s: IsInf(+1)=%v IsInf(-1)=%v", a.V, d.IsInf(1), d.IsInf(-1))
	}
	// any positive / negative sign argument, not only +-1 (the documentation says sign > 0, sign < 0)
	for _, sg := range []int{2, -2, math.MaxInt, math.MinInt, 1 << 32, -(1 << 32), 1 << 31, -(1 << 31), 1 << 16, int(int64(splitmix(a.V.Hi ^ a.V.Lo)))} {
		want := isInf
		if sg > 0 {
			want = isInf && !d.Signbit()
		} else if sg < 0 {
			want = isInf && d.Signbit()
		}
		if d.IsInf(sg) != want {
			return violf("%s: IsInf(%d) = %v, want %v", a.V, sg, d.IsInf(sg), want)
		}
		// the constructor: Inf(sign) is +Inf for sign >= 0 and -Inf for sign < 0, and the predicates agree
		if i := d128.Inf(sg); !i.IsInf(0) || i.IsNaN() || i.Signbit() != (sg < 0) || !i.IsInf(sg) && sg != 0 {
			return violf("Inf(%d) = %s", sg, DOf(i))
		}
	}
	if i := d128.Inf(0); !i.IsInf(1) || i.Signbit() {
		return violf("Inf(0) = %s, want +Inf", DOf(i))
	}
	if n.Class != ref.Finite || n.IsZero() {
		st.NT(hashWords(a.V.Hi, a.V.Lo), func() any { return map[string]any{"bits": a.V.String()} })
	}
	return nil
})

// ---- operand classes ----------------------------------------------------------------

var c15Reps = func() []D {
	var out []D
	add := func(d D) { out = append(out, d) }
	// NaNs: canonical, signed, payload, "signalling" bit, all-ones
	add(D{0x7c00000000000000, 0})
	add(D{0xfc00000000000000, 0})
	add(D{0x7c00000000000000, 0x123456})
	add(D{0x7e00000000000000, 7})
	add(D{0x7fffffffffffffff, 0xffffffffffffffff})
	// infinities: canonical and with garbage
	add(D{0x7800000000000000, 0})
	add(D{0xf800000000000000, 0})
	add(D{0x7800000000001234, 0xdeadbeef})
	add(D{0xfbffffffffffffff, 0xffffffffffffffff})
	// zeros at several exponents
	for _, e := range []int{ref.Emin, 0, ref.Emax, -17} {
		add(DFin(false, new(big.Int), e))
		add(DFin(true, new(big.Int), e))
	}
	fin := func(neg bool, c int64, e int) { add(DFin(neg, big.NewInt(c), e)) }
	for _, neg := range []bool{false, true} {
		fin(neg, 1, 0)     // 1
		fin(neg, 10, -1)   // 1 in another cohort
		fin(neg, 1000, -3) // 1 in another cohort
		fin(neg, 25, -2)   // 0.25
		fin(neg, 5, -1)    // 0.5
		fin(neg, 15, -1)   // 1.5 (half-integer)
		fin(neg, 2, 0)     // even integer
		fin(neg, 25, -1)   // 2.5
		fin(neg, 3, 0)     // odd integer
		fin(neg, 300, -2)  // odd integer, other cohort
		fin(neg, 4, 0)     // even
		fin(neg, 7, 0)     // odd
		fin(neg, 1, 3)     // 1000
		fin(neg, 1, 20)    // large even integer
		fin(neg, 125, -3)  // 0.125
		fin(neg, 1024, 0)  // power of two
	}
	return out
}()

// TestC15_Product enumerates the complete product of operand-class
// representatives for every operation in the table.
func TestC15_Product(t *testing.T) {
	if cfg.shard != 0 {
		t.Skip("enumeration runs in shard 0 only")
	}
	n := 0
	for i := range c15Ops {
		op := &c15Ops[i]
		for _, x := range c15Reps {
			ys := c15Reps
			if op.arity == 1 {
				ys = c15Reps[:1]
			}
			for _, y := range ys {
				a := c15Args{Op: op.name, X: x, Y: y}
				if op.arity == 1 {
					a.Y = D{}
				}
				if v := c15.Eval(a); v != nil {
					c15.writeFail(a, v)
					t.Fatalf("%s", v.Msg)
				}
				n++
			}
		}
	}
	st := S("C15", "class-product")
	st.Eval(n)
	st.SetExhaustive()
	st.Note("enumerated", "every operation of the table x every pair of operand-class representatives")
	st.Note("representatives", len(c15Reps))
	st.Note("operations", len(c15Ops))
}

// genClassMember draws a random member of a random operand class whose value a
// float64 holds exactly (so that the float64 operation is a valid oracle).
func genClassMember(t *rapid.T) D {
	switch ir(t, 0, 9, "class") {
	case 0, 1:
		return genSpecial(t)
	case 2:
		return genZero(t)
	case 3:
		// +-1 in any cohort
		return genCohortMember(t, DFin(genSign(t), big.NewInt(1), 0))
	case 4:
		// small integers (odd / even), any cohort
		return genCohortMember(t, DFin(genSign(t), big.NewInt(int64(ir(t, 1, 40, "int"))), 0))
	case 5:
		// half-integers and quarters
		return genCohortMember(t, DFin(genSign(t), big.NewInt(int64(ir(t, 1, 400, "q"))*25), -2))
	case 6:
		// large integers that float64 holds exactly: k * 2^j
		c := new(big.Int).Lsh(big.NewInt(int64(ir(t, 1, 1000, "k"))), uint(ir(t, 30, 70, "j")))
		return DFin(genSign(t), capCoef(c), 0)
	case 7:
		// magnitudes below one: k / 2^j
		j := ir(t, 1, 20, "j")
		c := new(big.Int).Mul(big.NewInt(int64(ir(t, 1, 1<<uint(j)-1, "k"))), pow(5, j))
		return DFin(genSign(t), c, -j)
	}
	return c15Reps[ir(t, 0, len(c15Reps)-1, "rep")]
}

func TestC15_Special(t *testing.T) {
	runRapid(t, 100000, 4000000, func(t *rapid.T) {
		op := c15Ops[ir(t, 0, len(c15Ops)-1, "op")]
		a := c15Args{Op: op.name, X: genClassMember(t)}
		if op.arity == 2 {
			a.Y = genClassMember(t)
		}
		c15.Run(t, a)
	})
}

func TestC15_Predicates(t *testing.T) {
	runRapid(t, 100000, 6000000, func(t *rapid.T) {
		var v D
		if ir(t, 0, 2, "kind") == 0 {
			v = D{u64(t, "hi"), u64(t, "lo")}
			if ir(t, 0, 3, "forceSpecial") == 0 {
				v.Hi |= 0x7800000000000000
			}
		} else {
			v = genAny(t)
		}
		c15pred.Run(t, c15PredArgs{V: v})
	})
}
