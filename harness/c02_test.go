package harness

import (
	"math/big"
	"testing"

	d128 "github.com/woodsbury/decimal128"
	"pgregory.net/rapid"

	"verif/harness/ref"
)

// C02 — multiplication and division are correctly rounded in all six modes.

type c02Args struct {
	X, Y D
	Quo  bool
}

var c02 = Register("C02", "C02.mulquo", func(a c02Args) *Violation {
	st := S("C02", "mulquo")
	st.Eval(1)
	x, y := a.X.Dec(), a.Y.Dec()
	nx, ny := a.X.Num(), a.Y.Num()
	if nx.Class != ref.Finite || ny.Class != ref.Finite {
		return nil
	}
	opname := "Mul"
	if a.Quo {
		opname = "Quo"
	}
	neg := nx.Neg != ny.Neg
	var exact ref.X
	var want0 *ref.Num // mode-independent expectation
	switch {
	case a.Quo && ny.IsZero() && nx.IsZero():
		want0 = &ref.Num{Class: ref.NaN}
	case a.Quo && ny.IsZero():
		want0 = &ref.Num{Class: ref.Inf, Neg: neg}
	case nx.IsZero() || (!a.Quo && ny.IsZero()):
		want0 = &ref.Num{Class: ref.Finite, Neg: neg, Coef: new(big.Int)}
	case a.Quo:
		exact = ref.QuoX(nx, ny)
	default:
		exact = ref.MulX(nx, ny)
	}
	for _, m := range loopModes() {
		var got d128.Decimal
		if a.Quo {
			got = x.QuoWithMode(y, m)
		} else {
			got = x.MulWithMode(y, m)
		}
		g := ref.Decode(got)
		var want ref.Num
		if want0 != nil {
			want = *want0
			if want.Class == ref.NaN {
				if g.Class != ref.NaN {
					return violf("%s(%s, %s) mode %v = %s, want NaN", opname, nx, ny, m, g)
				}
				continue
			}
		} else {
			want = ref.RoundX(exact, m, true)
		}
		if !ref.SameVal(g, want) {
			return violf("%s(%s, %s) mode %v = %s, want %s (exact %s)", opname, nx, ny, m, g, want, abbr(exact.String()))
		}
		var got2 d128.Decimal
		withDefaultMode(m, func() {
			if a.Quo {
				got2 = x.Quo(y)
			} else {
				got2 = x.Mul(y)
			}
		})
		if got2 != got {
			return violf("%s(%s, %s) under DefaultRoundingMode=%v gives %s, %sWithMode gives %s", opname, nx, ny, m, ref.Decode(got2), opname, g)
		}
	}
	if want0 != nil {
		st.Class("zero-operand")
		return nil
	}
	klass, e := inexactClass(exact)
	st.Class(opname + "/" + klass)
	nontrivial := klass != "exact"
	if ref.BelowFlush(exact) {
		st.Class("flush")
		nontrivial = true
	} else if e == ref.Emin && klass != "exact" {
		st.Class("subnormal-rounded")
	} else if e == ref.Emin {
		st.Class("at-min-exponent-exact")
	}
	if e > ref.Emax {
		st.Class("overflow")
		nontrivial = true
	} else if ref.RoundX(exact, d128.AwayFromZero, true).Class == ref.Inf {
		st.Class("overflow-edge")
	}
	if !a.Quo {
		if nx.Coef.BitLen() <= 64 && ny.Coef.BitLen() <= 64 {
			st.Class("mul-64x64-path")
		} else {
			st.Class("mul-256-path")
		}
	} else {
		if nx.Coef.BitLen() <= 64 && ny.Coef.BitLen() <= 64 {
			st.Class("quo-64-path")
		} else {
			st.Class("quo-128-path")
		}
	}
	if nontrivial {
		q := uint64(0)
		if a.Quo {
			q = 1
		}
		st.NT(hashWords(a.X.Hi, a.X.Lo, a.Y.Hi, a.Y.Lo, q), func() any {
			return map[string]any{"op": opname, "x": nx.String(), "y": ny.String(), "exact": abbr(exact.String()), "class": klass}
		})
	}
	return nil
})

// steerExps draws exponents (ex, ey) for coefficients with the given digit
// counts such that the result exponent lands in an interesting window.
func steerExps(t *rapid.T, quo bool, dx, dy int) (int, int) {
	ex := genExp(t)
	var target int // desired decimal exponent of the leading digit of the result
	switch ir(t, 0, 4, "steer") {
	case 0:
		target = ir(t, -6215, -6135, "lowTarget")
	case 1:
		target = ir(t, 6100, 6150, "highTarget")
	case 2:
		target = genNear(t, 5, -6177, -6176, -6143, 6144, 6145, 6111)
	default:
		return ex, genExp(t)
	}
	// mul: lead ~ ex + ey + dx + dy - 1 ; quo: lead ~ ex - ey + dx - dy
	var ey int
	if quo {
		ey = ex + dx - dy - target
	} else {
		ey = target - ex - dx - dy + 1
	}
	if ey < ref.Emin || ey > ref.Emax {
		// move ex instead
		ey = clampExp(ey)
		if quo {
			ex = target + ey - dx + dy
		} else {
			ex = target - ey - dx - dy + 1
		}
		ex = clampExp(ex)
	}
	return ex, ey
}

func pow(b int64, k int) *big.Int { return new(big.Int).Exp(bi(b), bi(int64(k)), nil) }

// oddIn draws an odd integer w with lo < w <= hi.
func oddIn(t *rapid.T, lo, hi *big.Int) *big.Int {
	span := new(big.Int).Sub(hi, lo)
	r := new(big.Int).SetUint64(u64(t, "w0"))
	r.Lsh(r, 64)
	r.Or(r, new(big.Int).SetUint64(u64(t, "w1")))
	r.Mod(r, span)
	r.Add(r, lo)
	r.Add(r, ref.One)
	if r.Bit(0) == 0 {
		if r.Cmp(hi) < 0 {
			r.Add(r, ref.One)
		} else {
			r.Sub(r, ref.One)
		}
	}
	return r
}

func genMulQuoPair(t *rapid.T) (D, D, bool) {
	quo := rapid.Bool().Draw(t, "quo")
	twoCmax := new(big.Int).Lsh(ref.Cmax, 1)
	wLo := new(big.Int).Quo(twoCmax, ref.Ten)
	kind := ir(t, 0, 9, "pairKind")
	var cx, cy *big.Int
	switch {
	case kind <= 2:
		cx, cy = genCoef(t), genCoef(t)
	case kind == 3:
		// both coefficients below 2^64 (fast paths), including near 2^64
		cx = new(big.Int).SetUint64(u64(t, "cx64"))
		cy = new(big.Int).SetUint64(u64(t, "cy64"))
		if rapid.Bool().Draw(t, "smallDiv") {
			cy = bi(int64(ir(t, 1, 1000, "cySmall")))
		}
	case kind <= 5 && !quo:
		// exact tie product: x = 5^k u, y = 2^(k-1) v, u v odd with 34..35 digits
		k := ir(t, 1, 40, "k")
		p5, p2 := pow(5, k), pow(2, k-1)
		uMax := new(big.Int).Quo(ref.Cmax, p5)
		vMax := new(big.Int).Quo(ref.Cmax, p2)
		w := oddIn(t, wLo, twoCmax) // target size of u*v
		// pick u then v ~ w/u (both odd)
		u := new(big.Int).SetUint64(u64(t, "u"))
		u.Mod(u, uMax)
		u.Or(u, ref.One)
		if u.Cmp(uMax) > 0 {
			u.Set(ref.One)
		}
		v := new(big.Int).Quo(w, u)
		v.Or(v, ref.One)
		if v.Cmp(vMax) > 0 {
			v.Set(vMax)
			v.Or(v, ref.One)
			if v.Cmp(vMax) > 0 {
				v.Sub(v, ref.Two)
			}
		}
		cx = new(big.Int).Mul(p5, u)
		cy = new(big.Int).Mul(p2, v)
		if d := ir(t, -1, 3, "perturb"); d < 0 {
			cy.Add(cy, ref.One) // near-miss of the tie
		}
		if rapid.Bool().Draw(t, "swap") {
			cx, cy = cy, cx
		}
	case kind <= 5 && quo:
		// terminating quotients: divisor 2^a 5^b; exact ties for y = 2^a, x = 2^(a-1) w
		if rapid.Bool().Draw(t, "tieCtor") {
			aexp := ir(t, 1, 3, "a")
			hi := new(big.Int).Quo(ref.Cmax, pow(2, aexp-1))
			w := oddIn(t, wLo, hi)
			cx = new(big.Int).Mul(pow(2, aexp-1), w)
			cy = pow(2, aexp)
			cy.Mul(cy, ref.Pow10(ir(t, 0, 20, "z")))
		} else {
			aexp := ir(t, 0, 60, "a")
			bexp := ir(t, 0, 40, "b")
			cy = new(big.Int).Mul(pow(2, aexp), pow(5, bexp))
			for cy.Cmp(ref.Cmax) > 0 {
				cy.Rsh(cy, 1)
			}
			cx = genCoef(t)
		}
	case kind <= 7 && quo:
		// hard near-tie quotient: x/y*10^s = cr + 1/2 - delta/(2y)
		dy := ir(t, 1, 30, "dy")
		yv := genDigits(t, dy)
		last := []int64{1, 3, 7, 9}[ir(t, 0, 3, "ylast")]
		yv.Sub(yv, new(big.Int).Mod(yv, ref.Ten))
		yv.Add(yv, bi(last))
		s := dy + ir(t, 0, 2, "sExtra")
		if s > 33 {
			s = 33
		}
		mod := new(big.Int).Mul(ref.Two, ref.Pow10(s))
		inv := new(big.Int).ModInverse(yv, mod)
		delta := bi(int64(2*ir(t, -3, 3, "delta") + 1))
		w := oddIn(t, wLo, twoCmax)
		want := new(big.Int).Mul(delta, inv)
		want.Mod(want, mod)
		diff := new(big.Int).Sub(w, want)
		diff.Mod(diff, mod)
		w.Sub(w, diff)
		if w.Cmp(wLo) <= 0 {
			w.Add(w, mod)
		}
		num := new(big.Int).Mul(yv, w)
		num.Sub(num, delta)
		xr := new(big.Int)
		xq, _ := new(big.Int).QuoRem(num, mod, xr)
		if xr.Sign() != 0 || xq.Cmp(ref.Cmax) > 0 || xq.Sign() <= 0 {
			cx, cy = genCoef(t), yv // construction did not fit; still a valid pair
		} else {
			cx, cy = xq, yv
		}
	case kind <= 7 && rapid.Bool().Draw(t, "nearTieMul"):
		// hard near-tie product: x*y = cr*10^k + 5*10^(k-1) + delta
		k := ir(t, 1, 25, "k")
		dy := ir(t, k+1, 30, "dy")
		yv := genDigits(t, dy)
		yv.Sub(yv, new(big.Int).Mod(yv, ref.Ten))
		yv.Add(yv, bi([]int64{1, 3, 7, 9}[ir(t, 0, 3, "ylast")]))
		base := new(big.Int).Mul(big5, ref.Pow10(k-1))
		base.Add(base, bi(int64(ir(t, -3, 3, "delta"))))
		inv := new(big.Int).ModInverse(new(big.Int).Mod(ref.Pow10(k), yv), yv)
		if inv == nil {
			cx, cy = genCoef(t), yv
			break
		}
		r := new(big.Int).Mul(base, inv)
		r.Neg(r)
		r.Mod(r, yv)
		lowest := new(big.Int).Quo(new(big.Int).Add(ref.Cmax, ref.One), ref.Ten)
		cr := fullCoef(t)
		diff := new(big.Int).Sub(cr, r)
		diff.Mod(diff, yv)
		cr.Sub(cr, diff)
		if cr.Cmp(lowest) < 0 {
			cr.Add(cr, yv)
		}
		P := new(big.Int).Mul(cr, ref.Pow10(k))
		P.Add(P, base)
		rem := new(big.Int)
		xq, _ := new(big.Int).QuoRem(P, yv, rem)
		if rem.Sign() != 0 || xq.Cmp(ref.Cmax) > 0 || cr.Cmp(ref.Cmax) > 0 {
			cx, cy = genCoef(t), yv
		} else {
			cx, cy = xq, yv
		}
	case kind <= 7:
		// products around the 34/35-digit boundary and 2^64 word boundaries
		cx = genCoef(t)
		target := new(big.Int).Add(ref.Cmax, bi(int64(ir(t, -3, 3, "off"))))
		if rapid.Bool().Draw(t, "tenfold") {
			target.Mul(target, ref.Pow10(ir(t, 1, 34, "scale")))
		}
		if cx.Sign() == 0 {
			cx = bi(7)
		}
		if !quo && rapid.Bool().Draw(t, "wordThreshold") {
			// the product just above or below w * 2^(64 j) for the words the reduction kernels compare the top
			// word with (10000, the four-/three-/two-digit arms, the largest coefficient's top word, 10^19) and
			// for w = 1: the exact product then has a top word that is exactly, or one off, such a constant
			w := []uint64{1, 10000, 10001, 0x09c4_0000_0000_0000, 0x00fa_0000_0000_0000, 0x0019_0000_0000_0000, 0x0002_8000_0000_0000, 10_000_000_000_000_000_000, 100, 1000, 100_000_000}[ir(t, 0, 10, "w")]
			j := uint(ir(t, 1, 3, "j"))
			target = new(big.Int).Lsh(new(big.Int).SetUint64(w), 64*j)
			if ir(t, 0, 2, "nextWord") == 0 {
				target.Add(target, new(big.Int).Lsh(ref.One, 64*j)) // upper end of the top word's block
			}
			cy = new(big.Int).Quo(target, cx)
			cy.Add(cy, bi(int64(ir(t, -1, 1, "side"))))
			if cy.Sign() <= 0 || cy.Cmp(ref.Cmax) > 0 {
				// the target is out of reach for this cx: take a multiplier of the size that brings it in reach
				cx = new(big.Int).Add(new(big.Int).Quo(target, ref.Cmax), bi(int64(ir(t, 1, 1000, "up"))))
				cx = capCoef(cx)
				cy = capCoef(new(big.Int).Quo(target, cx))
			}
			break
		}
		cy = new(big.Int).Quo(target, cx)
		cy = capCoef(cy)
	case kind == 8:
		// zero operands
		cx, cy = genCoef(t), genCoef(t)
		switch ir(t, 0, 2, "whichZero") {
		case 0:
			cx = new(big.Int)
		case 1:
			cy = new(big.Int)
		default:
			cx, cy = new(big.Int), new(big.Int)
		}
	default:
		// divisors/multipliers with extreme words (quotient estimate correction)
		words := []uint64{0, 1, 0x7fffffffffffffff, 0x8000000000000000, 0xffffffffffffffff, 0xfffffffffffffffe, 0x00000000ffffffff, 0xffffffff00000000}
		mk := func(lbl string) *big.Int {
			hi := words[rapid.IntRange(0, len(words)-1).Draw(t, lbl+"hi")] >> 15
			lo := words[rapid.IntRange(0, len(words)-1).Draw(t, lbl+"lo")]
			c := new(big.Int).SetUint64(hi)
			c.Lsh(c, 64)
			c.Or(c, new(big.Int).SetUint64(lo))
			return capCoef(c)
		}
		cx, cy = mk("x"), mk("y")
		if rapid.Bool().Draw(t, "randX") {
			cx = genCoef(t)
		}
	}
	if cx == nil || cy == nil {
		cx, cy = genCoef(t), genCoef(t)
	}
	cx, cy = capCoef(cx), capCoef(cy)
	ex, ey := steerExps(t, quo, ref.DecLen(cx), ref.DecLen(cy))
	return DFin(genSign(t), cx, ex), DFin(genSign(t), cy, ey), quo
}

func TestC02_MulQuo(t *testing.T) {
	runRapid(t, 60000, 3200000, func(t *rapid.T) {
		x, y, quo := genMulQuoPair(t)
		c02.Run(t, c02Args{X: x, Y: y, Quo: quo})
	})
}
