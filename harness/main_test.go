package harness

import (
	"encoding/json"
	"os"
	"path/filepath"
	"strings"
	"testing"

	d128 "github.com/woodsbury/decimal128"

	"verif/harness/ref"
)

func TestMain(m *testing.M) {
	warmUp()
	code := m.Run()
	dumpStats()
	os.Exit(code)
}

type replayResult struct {
	Path     string `json:"path"`
	Property string `json:"property"`
	Check    string `json:"check"`
	Violated bool   `json:"violated"`
	Message  string `json:"message,omitempty"`
	Error    string `json:"error,omitempty"`
}

// TestReplay re-executes the concrete cases named in VERIF_REPLAY (a list of
// replay files separated by ':') through their pure check functions, without
// rapid, and writes replay-results.json into VERIF_OUT. It never fails by
// itself; the driver interprets the results (regression vs known finding).
func TestReplay(t *testing.T) {
	list := os.Getenv("VERIF_REPLAY")
	if list == "" {
		t.Skip("no VERIF_REPLAY")
	}
	var out []replayResult
	for _, p := range strings.Split(list, ":") {
		if p == "" {
			continue
		}
		r := replayResult{Path: p}
		b, err := os.ReadFile(p)
		if err != nil {
			r.Error = err.Error()
			out = append(out, r)
			continue
		}
		var rf ReplayFile
		if err := json.Unmarshal(b, &rf); err != nil {
			r.Error = err.Error()
			out = append(out, r)
			continue
		}
		r.Property, r.Check = rf.Property, rf.Check
		e := registry[rf.Check]
		if e == nil {
			r.Error = "unknown check " + rf.Check
			out = append(out, r)
			continue
		}
		onHangReplay = func(msg string) {
			r.Violated, r.Message = true, msg
			out = append(out, r)
			if dir := os.Getenv("VERIF_OUT"); dir != "" {
				b, _ := json.MarshalIndent(out, "", " ")
				_ = os.WriteFile(filepath.Join(dir, "replay-results.json"), b, 0o644)
			}
		}
		v, err := e.run(rf.Args)
		onHangReplay = nil
		if err != nil {
			r.Error = err.Error()
		} else if v != nil {
			r.Violated = true
			r.Message = v.Msg
			t.Logf("replay %s: VIOLATED: %s", p, v.Msg)
		} else {
			t.Logf("replay %s: holds", p)
		}
		out = append(out, r)
	}
	if dir := os.Getenv("VERIF_OUT"); dir != "" {
		b, _ := json.MarshalIndent(out, "", " ")
		_ = os.WriteFile(filepath.Join(dir, "replay-results.json"), b, 0o644)
	}
}

// warmUp makes the process's FIRST use of every rounding mode happen in an order that is not the declaration order
// (a permutation derived from VERIF_SEED; the checks themselves loop over the modes in declaration order, as every
// `for mode := range modes` caller does). State that the library builds lazily on first use — a decision table per
// mode, a cache sized by the first request — must come out the same whatever that order was; everything the checks
// evaluate afterwards is judged by the exact oracles, so a table left half-built by an unusual order of first uses
// shows as ordinary violations. The results of the warm-up calls themselves are not looked at.
func warmUp() {
	perm := append([]d128.RoundingMode(nil), ref.Modes...)
	h := splitmix(cfg.seed ^ 0x77a7)
	for i := len(perm) - 1; i > 0; i-- {
		h = splitmix(h)
		j := int(h % uint64(i+1))
		perm[i], perm[j] = perm[j], perm[i]
	}
	if perm[0] == ref.Modes[0] { // never start with the first declared mode
		perm[0], perm[len(perm)-1] = perm[len(perm)-1], perm[0]
	}
	one, three, seven := d128.New(1, 0), d128.New(3, 0), d128.New(-7, 0)
	big := d128.MustParse("9999999999999999999999999999999999e6111")
	tiny := d128.New(1, -6176)
	for _, m := range perm {
		_ = one.QuoWithMode(three, m)
		_ = seven.QuoWithMode(three, m)
		_ = one.QuoWithMode(three, m).MulWithMode(seven.QuoWithMode(three, m), m)
		_ = one.AddWithMode(tiny, m)
		_ = seven.SubWithMode(tiny, m)
		_ = big.AddWithMode(big, m)
		_ = tiny.QuoWithMode(three, m)
		_ = one.QuoWithMode(three, m).Round(5, m)
		_, _ = seven.QuoRemWithMode(tiny, m)
		_ = three.PowWithMode(one.QuoWithMode(three, m), m)
		withDefaultMode(m, func() {
			_, _ = d128.Parse("-0.66666666666666666666666666666666666666666666")
			_ = d128.FromFloat64(0.1)
			_ = d128.New(12345, -6179)
			_ = d128.Ldexp(seven, -6180)
			_ = d128.Sqrt(three)
			_ = d128.Cbrt(seven)
			_ = d128.Exp(one)
			_ = d128.Log(three)
			_ = d128.Log1p(tiny)
			_ = d128.Exp2(one.Quo(three))
			_ = d128.Exp10(one.Quo(three))
		})
	}
}
