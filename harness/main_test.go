package harness

import (
	"encoding/json"
	"os"
	"path/filepath"
	"strings"
	"testing"
)

func TestMain(m *testing.M) {
	code := m.Run()
	dumpStats()
	os.Exit(code)
}

type replayResult struct {
	Path     string `json:"path"`
	Property string `json:"property"`
	Check    string `json:"check"`
	Violated bool   `json:"violated"`
	Message  string `json:"message,omitempty"`
	Error    string `json:"error,omitempty"`
}

// TestReplay re-executes the concrete cases named in VERIF_REPLAY (a list of
// replay files separated by ':') through their pure check functions, without
// rapid, and writes replay-results.json into VERIF_OUT. It never fails by
// itself; the driver interprets the results (regression vs known finding).
func TestReplay(t *testing.T) {
	list := os.Getenv("VERIF_REPLAY")
	if list == "" {
		t.Skip("no VERIF_REPLAY")
	}
	var out []replayResult
	for _, p := range strings.Split(list, ":") {
		if p == "" {
			continue
		}
		r := replayResult{Path: p}
		b, err := os.ReadFile(p)
		if err != nil {
			r.Error = err.Error()
			out = append(out, r)
			continue
		}
		var rf ReplayFile
		if err := json.Unmarshal(b, &rf); err != nil {
			r.Error = err.Error()
			out = append(out, r)
			continue
		}
		r.Property, r.Check = rf.Property, rf.Check
		e := registry[rf.Check]
		if e == nil {
			r.Error = "unknown check " + rf.Check
			out = append(out, r)
			continue
		}
		onHangReplay = func(msg string) {
			r.Violated, r.Message = true, msg
			out = append(out, r)
			if dir := os.Getenv("VERIF_OUT"); dir != "" {
				b, _ := json.MarshalIndent(out, "", " ")
				_ = os.WriteFile(filepath.Join(dir, "replay-results.json"), b, 0o644)
			}
		}
		v, err := e.run(rf.Args)
		onHangReplay = nil
		if err != nil {
			r.Error = err.Error()
		} else if v != nil {
			r.Violated = true
			r.Message = v.Msg
			t.Logf("replay %s: VIOLATED: %s", p, v.Msg)
		} else {
			t.Logf("replay %s: holds", p)
		}
		out = append(out, r)
	}
	if dir := os.Getenv("VERIF_OUT"); dir != "" {
		b, _ := json.MarshalIndent(out, "", " ")
		_ = os.WriteFile(filepath.Join(dir, "replay-results.json"), b, 0o644)
	}
}
