package harness

import (
	"fmt"
	"strconv"
	"strings"
	"testing"

	d128 "github.com/woodsbury/decimal128"
	"pgregory.net/rapid"

	"verif/harness/ref"
)

// C06 — default text output is the shortest exact representation and round-trips.

type c06Args struct {
	V D
}

// shortestForms constructs, from the decoded value, the strings the statement
// prescribes: the %v/'g' form, the 'e' form and the 'f' form with no
// superfluous digits.
func shortestForms(n ref.Num) (g, e, f string) {
	sign := ""
	if n.Neg {
		sign = "-"
	}
	if n.Coef.Sign() == 0 {
		return sign + "0", sign + "0e+00", sign + "0"
	}
	full := n.Coef.String()
	digits := strings.TrimRight(full, "0")
	x := n.Exp + len(full) - 1 // decimal exponent of the leading digit
	// exponent form
	mant := digits[:1]
	if len(digits) > 1 {
		mant += "." + digits[1:]
	}
	es := "+"
	ax := x
	if x < 0 {
		es, ax = "-", -x
	}
	exps := strconv.Itoa(ax)
	if len(exps) < 2 {
		exps = "0" + exps
	}
	e = sign + mant + "e" + es + exps
	// positional form
	if x >= 0 {
		if len(digits) <= x+1 {
			f = sign + digits + strings.Repeat("0", x+1-len(digits))
		} else {
			f = sign + digits[:x+1] + "." + digits[x+1:]
		}
	} else {
		f = sign + "0." + strings.Repeat("0", -x-1) + digits
	}
	if x >= -4 && x <= 5 {
		g = f
	} else {
		g = e
	}
	return
}

var c06 = Register("C06", "C06.text", func(a c06Args) *Violation {
	st := S("C06", "text")
	st.Eval(1)
	d := a.V.Dec()
	n := a.V.Num()
	s := d.String()
	mt, err := d.MarshalText()
	if err != nil {
		return violf("MarshalText(%s): %v", a.V, err)
	}
	if v := ownedBytes("MarshalText("+a.V.String()+")", mt, func() []byte { r, _ := d.MarshalText(); return r }); v != nil {
		return v
	}
	pv := fmt.Sprintf("%v", d)
	if n.Class != ref.Finite {
		want := "NaN"
		if n.Class == ref.Inf {
			want = "+Inf"
			if n.Neg {
				want = "-Inf"
			}
		}
		if s != want || string(mt) != want || pv != want {
			return violf("%s prints as String %q, MarshalText %q, %%v %q; want %q", a.V, s, mt, pv, want)
		}
		// round trip keeps the class (and the sign of an infinity)
		p, perr := d128.Parse(s)
		u, sc := prior(hashWords(a.V.Hi, a.V.Lo, 1)), prior(hashWords(a.V.Hi, a.V.Lo, 2))
		uerr := u.UnmarshalText(mt)
		_, serr := fmt.Sscan(s, &sc)
		for _, r := range []struct {
			name string
			d    d128.Decimal
			err  error
		}{{"Parse", p, perr}, {"UnmarshalText", u, uerr}, {"Sscan", sc, serr}} {
			g := ref.Decode(r.d)
			if r.err != nil || g.Class != n.Class || (n.Class == ref.Inf && g.Neg != n.Neg) {
				return violf("%s(%q) = %s, %v; want a %s", r.name, s, g, r.err, want)
			}
		}
		st.Class("special")
		return nil
	}
	wg, we, wf := shortestForms(n)
	outs := []struct{ name, got, want string }{
		{"String", s, wg},
		{"MarshalText", string(mt), wg},
		{"%v", pv, wg},
		{"Format(g,-1)", d128.Format(d, 'g', -1), wg},
		{"Append(g,-1)", string(d128.Append(nil, d, 'g', -1)), wg},
		{"Decimal.Append(nil, v)", string(d.Append(nil, "v")), wg},
		{"Decimal.Append(prefix, v)", strings.TrimPrefix(string(d.Append([]byte("p="), "v")), "p="), wg},
		{"Sprint", fmt.Sprint(d), wg},
		{"Format(G,-1)", strings.ToLower(d128.Format(d, 'G', -1)), wg},
		{"Format(E,-1)", strings.ToLower(d128.Format(d, 'E', -1)), we},
		{"Format(e,-1)", d128.Format(d, 'e', -1), we},
		{"Append(e,-1)", string(d128.Append(nil, d, 'e', -1)), we},
	}
	x := 0
	if !n.IsZero() {
		x = n.Exp + ref.DecLen(n.Coef) - 1
	}
	doF := x > -300 && x < 300 || hashWords(a.V.Hi, a.V.Lo)%50 == 0 // 'f' at huge exponents sampled at 1/50 (6k-byte strings)
	if doF {
		outs = append(outs,
			struct{ name, got, want string }{"Format(f,-1)", d128.Format(d, 'f', -1), wf},
			struct{ name, got, want string }{"Append(f,-1)", string(d128.Append(nil, d, 'f', -1)), wf})
		st.Class("f-form-checked")
	}
	for _, o := range outs {
		if o.got != o.want {
			return violf("%s of %s = %q, want %q", o.name, n, abbr(o.got), abbr(o.want))
		}
		// independent of the constructed expectation: the numeral denotes d exactly
		num, ok := ref.EvalNumeral(o.got)
		if !ok || !num.Denotes(n) {
			return violf("%s of %s = %q does not denote the value", o.name, n, abbr(o.got))
		}
	}
	// lossless interchange: the text denotes d exactly, so it must read back as d whatever the
	// DefaultRoundingMode is (one mode per case, chosen by the case's hash; every text form is fed back)
	mode := ref.Modes[hashWords(a.V.Hi, a.V.Lo, 77)%6]
	texts := []string{s, we}
	if doF {
		texts = append(texts, wf)
	}
	var rv *Violation
	withDefaultMode(mode, func() {
		for _, txt := range texts {
			p, perr := d128.Parse(txt)
			u, sc := prior(hashString(txt)+1), prior(hashString(txt)+2)
			uerr := u.UnmarshalText([]byte(txt))
			_, serr := fmt.Sscan(txt, &sc)
			for _, r := range []struct {
				name string
				d    d128.Decimal
				err  error
			}{{"Parse", p, perr}, {"UnmarshalText", u, uerr}, {"Sscan", sc, serr}} {
				if r.err != nil || !r.d.Equal(d) || r.d.Signbit() != d.Signbit() {
					rv = violf("%s(%q) under DefaultRoundingMode=%v = %s, %v; want a Decimal equal to %s", r.name, abbr(txt), mode, ref.Decode(r.d), r.err, n)
					return
				}
				if !ref.SameVal(ref.Decode(r.d), n) {
					rv = violf("%s(%q) under DefaultRoundingMode=%v = %s differs in value from %s", r.name, abbr(txt), mode, ref.Decode(r.d), n)
					return
				}
			}
		}
	})
	if rv != nil {
		return rv
	}
	// the string returned earlier is not disturbed by later calls
	other := ref.FromBits(a.V.Hi^0x0003_0000_0000_0000, a.V.Lo^0x5555)
	_ = other.String()
	_ = d.Neg().String()
	if s != wg {
		return violf("String() result changed after later calls: %q", s)
	}
	nd := len(strings.TrimRight(n.Coef.String(), "0"))
	switch {
	case n.IsZero():
		st.Class("zero")
	case x >= -4 && x <= 5:
		st.Class("positional")
	default:
		st.Class("exponent-form")
	}
	if tz := ref.TrailingZeros(n.Coef); tz > 0 && !n.IsZero() {
		st.Class("trailing-zeros")
	}
	if nd >= 2 {
		st.NT(hashWords(a.V.Hi, a.V.Lo), func() any { return map[string]any{"d": n.String(), "text": s} })
	}
	return nil
})

func TestC06_Text(t *testing.T) {
	runRapid(t, 100000, 5000000, func(t *rapid.T) {
		var v D
		switch ir(t, 0, 9, "kind") {
		case 0:
			v = genAny(t)
		case 1, 2, 3:
			// around the positional / exponent-form switch: leading-digit exponent -7..8
			c := genCoef(t)
			if c.Sign() == 0 {
				c = bi(1)
			}
			x := ir(t, -7, 8, "x")
			v = DFin(genSign(t), c, clampExp(x-ref.DecLen(c)+1))
		case 4:
			// trailing-zero runs and zero pairs (shapes Decimal.digits special-cases)
			tz := ir(t, 0, 34, "tz")
			body := genDigits(t, ir(t, 1, 35-tz, "len"))
			v = DFin(genSign(t), capCoef(body.Mul(body, ref.Pow10(tz))), genExp(t))
		case 5:
			v = genZero(t)
		default:
			v = genFinite(t)
		}
		c06.Run(t, c06Args{V: v})
	})
}
