//go:build verif

package harness

import (
	"fmt"
	"math/big"
	"testing"

	d128 "github.com/woodsbury/decimal128"
	"pgregory.net/rapid"

	"verif/harness/ref"
)

// Sub-checks that drive unexported kernels through the "verif" build-tag
// hooks of /repo (verif_export.go). They add depth to C01/C02 (the public-API
// checks do not depend on them): a complete enumeration of the reduction /
// rounding decision table, and a differential of the multi-word integer
// primitives against math/big on adversarial word patterns.

func wordsToBig(ws []uint64) *big.Int {
	r := new(big.Int)
	for i := len(ws) - 1; i >= 0; i-- {
		r.Lsh(r, 64)
		r.Or(r, new(big.Int).SetUint64(ws[i]))
	}
	return r
}

func bigToWords(x *big.Int, n int) []uint64 {
	out := make([]uint64, n)
	t := new(big.Int).Set(x)
	mask := new(big.Int).SetUint64(^uint64(0))
	for i := 0; i < n; i++ {
		out[i] = new(big.Int).And(t, mask).Uint64()
		t.Rsh(t, 64)
	}
	return out
}

// ---- rounding kernel -------------------------------------------------------------

type hookReduceArgs struct {
	Mode  uint8
	Neg   bool
	Sig   string // decimal
	Words int    // 1..4: reduce64 / 128 / 192 / 256
	Exp   int16  // biased exponent handed to the kernel
	Trunc int8
}

var hookReduce = Register("C01", "C01.kernel", func(a hookReduceArgs) *Violation {
	sig, ok := new(big.Int).SetString(a.Sig, 10)
	if !ok || sig.Sign() <= 0 || sig.BitLen() > 64*a.Words {
		return nil
	}
	m := ref.Modes[int(a.Mode)%6]
	lo, hi, rexp := d128.VerifReduce(m, a.Neg, bigToWords(sig, a.Words), a.Exp, a.Trunc)
	// the value the kernel was handed: sig * 10^(exp-bias), moved by the sticky by less than a unit
	num := new(big.Int).Mul(sig, ref.Pow10(6))
	switch a.Trunc {
	case 1:
		num.Add(num, ref.One)
	case -1:
		num.Sub(num, ref.One)
	}
	x := ref.X{Neg: a.Neg, Num: num, Den: ref.One, Exp: int(a.Exp) - ref.Bias - 6}
	want := ref.RoundX(x, m, true)
	desc := func() string {
		return fmt.Sprintf("reduce%d(mode %v, neg %v, sig %s, exp %d, trunc %d)", 64*a.Words, m, a.Neg, a.Sig, int(a.Exp)-ref.Bias, a.Trunc)
	}
	coef := wordsToBig([]uint64{lo, hi})
	if int(rexp) > ref.Emax+ref.Bias {
		if want.Class != ref.Inf {
			return violf("%s signals overflow (exponent %d), want %s", desc(), int(rexp)-ref.Bias, want)
		}
		return nil
	}
	if want.Class == ref.Inf {
		return violf("%s = %se%d, want overflow", desc(), coef, int(rexp)-ref.Bias)
	}
	if coef.Cmp(ref.Cmax) > 0 || rexp < 0 {
		return violf("%s = %se%d is not a member of the format", desc(), coef, int(rexp)-ref.Bias)
	}
	got := ref.Num{Class: ref.Finite, Neg: a.Neg, Coef: coef, Exp: int(rexp) - ref.Bias}
	if !ref.SameVal(got, want) {
		return violf("%s = %s, want %s", desc(), got, want)
	}
	return nil
})

// TestC01_Kernel enumerates the decision table of the reduction/rounding kernel:
// 6 modes x sign x sticky {-1,0,+1} x significand shapes x exponent classes,
// within the preconditions its callers establish (a sticky accompanies only a
// significand that is already at or beyond full precision; a negative sticky
// only an exponent that cannot underflow).
func TestC01_Kernel(t *testing.T) {
	if cfg.shard != 0 {
		t.Skip("enumeration runs in shard 0 only")
	}
	st := S("C01", "kernel-decision-table")
	var sigs []*big.Int
	add := func(x *big.Int) {
		if x.Sign() > 0 {
			sigs = append(sigs, x)
		}
	}
	p := ref.Pow10
	cm := ref.Cmax
	for _, k := range []int{34, 35, 36, 37, 38, 39, 45, 57, 58, 70, 76} {
		base := new(big.Int).Mul(big.NewInt(1234567890123456789), p(k-19))
		add(p(k))                                                            // 10^k
		add(new(big.Int).Sub(p(k), ref.One))                                 // all nines
		add(new(big.Int).Add(p(k), ref.One))                                 // 10^k + 1
		add(base)                                                            // plain digits
		add(new(big.Int).Add(base, new(big.Int).Mul(big5, p(max(k-35, 0))))) // ...5 near the 35th digit position
	}
	// exact ties / near-ties after dropping 1..6 digits from a full-precision head
	heads := []*big.Int{new(big.Int).Set(cm), new(big.Int).Sub(cm, ref.One), p(34), new(big.Int).Add(p(33), ref.One), new(big.Int).Quo(new(big.Int).Add(cm, ref.One), ref.Ten), big.NewInt(0).Add(p(34), big.NewInt(2))}
	for _, h := range heads {
		for drop := 1; drop <= 6; drop++ {
			for _, tail := range []int64{0, 1, -1} {
				v := new(big.Int).Mul(h, p(drop))
				v.Add(v, new(big.Int).Mul(big5, p(drop-1)))
				v.Add(v, big.NewInt(tail))
				add(v)
			}
			add(new(big.Int).Mul(h, p(drop)))
		}
		add(h)
	}
	for _, sh := range []uint{64, 128, 192} {
		b := new(big.Int).Lsh(ref.One, sh)
		add(new(big.Int).Sub(b, ref.One))
		add(b)
		add(new(big.Int).Add(b, ref.One))
	}
	add(new(big.Int).Sub(new(big.Int).Lsh(ref.One, 256), ref.One))
	small := []*big.Int{big.NewInt(1), big.NewInt(7), big.NewInt(15), big.NewInt(999), p(19), new(big.Int).Sub(p(19), ref.One)}

	var exps []int
	for d := 1; d <= 40; d += 3 {
		exps = append(exps, -d) // below the minimum: gradual underflow, flush
	}
	exps = append(exps, 0, 1, 2, 6176, 12286, 12287)
	for d := 1; d <= 36; d += 5 {
		exps = append(exps, 12287+d) // above the maximum: spare-digit compensation, overflow
	}
	n := 0
	allExps := exps
	run := func(sig *big.Int, withSticky bool) {
		words := (sig.BitLen() + 63) / 64
		for w := max(words, 2); w <= 4; w++ {
			for mi := 0; mi < 6; mi++ {
				for _, neg := range []bool{false, true} {
					for _, e := range exps {
						truncs := []int8{0}
						if withSticky {
							truncs = append(truncs, 1)
							if e >= 0 && e <= 12287 && w >= 2 {
								truncs = append(truncs, -1)
							}
						}
						for _, tr := range truncs {
							// keep the biased exponent within what int16 arithmetic in the kernel can hold
							a := hookReduceArgs{Mode: uint8(mi), Neg: neg, Sig: sig.String(), Words: w, Exp: int16(e), Trunc: tr}
							if v := hookReduce.Eval(a); v != nil {
								hookReduce.writeFail(a, v)
								t.Fatalf("%s", v.Msg)
							}
							n++
						}
					}
				}
			}
		}
		if words == 1 {
			for mi := 0; mi < 6; mi++ {
				for _, neg := range []bool{false, true} {
					for _, e := range exps {
						a := hookReduceArgs{Mode: uint8(mi), Neg: neg, Sig: sig.String(), Words: 1, Exp: int16(e)}
						if v := hookReduce.Eval(a); v != nil {
							hookReduce.writeFail(a, v)
							t.Fatalf("%s", v.Msg)
						}
						n++
					}
				}
			}
		}
	}
	for _, s := range sigs {
		run(s, s.Cmp(p(34)) >= 0)
	}
	for _, s := range small {
		run(s, false)
	}
	// top band: a short significand whose exponent excess is moved into the coefficient and lands next to the
	// largest coefficient (first k digits of Cmax, +-1), at the one exponent where that happens and its neighbours
	for k := 1; k <= 35; k++ {
		lead := new(big.Int).Quo(cm, p(35-k))
		for _, off := range []int64{-1, 0, 1} {
			v := new(big.Int).Add(lead, big.NewInt(off))
			if v.Sign() <= 0 {
				continue
			}
			exps = []int{12287 + 35 - k - 1, 12287 + 35 - k, 12287 + 35 - k + 1}
			run(v, false)
		}
	}
	exps = allExps
	st.Eval(n)
	st.SetExhaustive()
	st.Note("enumerated", "reduce64/128/192/256 x 6 modes x sign x sticky x significand shapes x exponent classes")
	st.Note("significand_shapes", len(sigs)+len(small))
}

// ---- word primitives ---------------------------------------------------------------

type hookWordArgs struct {
	Width int // 128, 192, 256
	Op    string
	A, B  []uint64
	K     uint64
}

var (
	e10k = big.NewInt(10000)
	e1e8 = big.NewInt(100000000)
	e19  = new(big.Int).SetUint64(10_000_000_000_000_000_000)
)

var hookWord = Register("C02", "C02.words", func(a hookWordArgs) *Violation {
	st := S("C02", "word-primitives")
	st.Eval(1)
	n := a.Width / 64
	if len(a.A) != n || (len(a.B) != n && len(a.B) != 0) {
		return nil
	}
	x := wordsToBig(a.A)
	y := new(big.Int)
	if len(a.B) == n {
		y = wordsToBig(a.B)
	}
	mod := func(v *big.Int, words int) *big.Int {
		return new(big.Int).And(v, new(big.Int).Sub(new(big.Int).Lsh(ref.One, uint(64*words)), ref.One))
	}
	var got []uint64
	switch a.Width {
	case 128:
		var aa, bb [2]uint64
		copy(aa[:], a.A)
		copy(bb[:], a.B)
		if (a.Op == "div") && y.Sign() == 0 {
			return nil
		}
		got = d128.VerifU128(a.Op, aa, bb, a.K)
	case 192:
		var aa, bb [3]uint64
		copy(aa[:], a.A)
		copy(bb[:], a.B)
		if (a.Op == "div") && y.Sign() == 0 {
			return nil
		}
		got = d128.VerifU192(a.Op, aa, bb, a.K)
	case 256:
		var aa [4]uint64
		copy(aa[:], a.A)
		got = d128.VerifU256(a.Op, aa, a.K)
	default:
		return nil
	}
	kb := new(big.Int).SetUint64(a.K)
	var want []uint64
	divSmall := func(d *big.Int) []uint64 {
		q, r := new(big.Int).QuoRem(x, d, new(big.Int))
		return append(bigToWords(q, n), r.Uint64())
	}
	switch a.Op {
	case "mul":
		want = bigToWords(new(big.Int).Mul(x, y), 2*n)
	case "mul64":
		want = bigToWords(mod(new(big.Int).Mul(x, kb), n), n)
	case "mul1e38":
		want = bigToWords(new(big.Int).Mul(x, ref.Pow10(38)), 4)
	case "div":
		q, r := new(big.Int).QuoRem(x, y, new(big.Int))
		want = append(bigToWords(q, n), bigToWords(r, n)...)
	case "div10":
		want = divSmall(ref.Ten)
	case "div100":
		want = divSmall(big.NewInt(100))
	case "div1000":
		want = divSmall(big.NewInt(1000))
	case "div10000":
		want = divSmall(e10k)
	case "div1e8":
		want = divSmall(e1e8)
	case "div1e19":
		want = divSmall(e19)
	case "log10":
		if x.Sign() == 0 {
			want = []uint64{0}
		} else {
			want = []uint64{uint64(ref.DecLen(x) - 1)}
		}
	case "msd2":
		if x.Sign() == 0 {
			want = []uint64{0}
		} else {
			s := x.String()
			if len(s) > 2 {
				s = s[:2]
			}
			v, _ := new(big.Int).SetString(s, 10)
			want = []uint64{v.Uint64()}
		}
	case "lsh":
		want = bigToWords(mod(new(big.Int).Lsh(x, uint(a.K)), n), n)
	case "rsh":
		want = bigToWords(new(big.Int).Rsh(x, uint(a.K)), n)
	case "add":
		want = bigToWords(new(big.Int).Add(x, y), n+1)
	case "sub":
		d := new(big.Int).Sub(x, y)
		brw := uint64(0)
		if d.Sign() < 0 {
			brw = 1
			d.Add(d, new(big.Int).Lsh(ref.One, uint(64*n)))
		}
		want = append(bigToWords(d, n), brw)
	case "pow2":
		want = bigToWords(new(big.Int).Mul(x, x), 2*n)
	default:
		return nil
	}
	if fmt.Sprint(got) != fmt.Sprint(want) {
		return violf("uint%d.%s(%v, %v, %d) = %v, want %v", a.Width, a.Op, a.A, a.B, a.K, got, want)
	}
	st.Class(fmt.Sprintf("uint%d.%s", a.Width, a.Op))
	st.NT(hashWords(append(append([]uint64{uint64(a.Width), hashString(a.Op), a.K}, a.A...), a.B...)...), func() any {
		return map[string]any{"width": a.Width, "op": a.Op, "a": fmt.Sprintf("%x", a.A), "b": fmt.Sprintf("%x", a.B), "k": a.K}
	})
	return nil
})

var hostileWords = []uint64{0, 1, 2, 9, 10, 0x7fffffffffffffff, 0x8000000000000000, 0x8000000000000001, 0xffffffffffffffff, 0xfffffffffffffffe,
	0x00000000ffffffff, 0xffffffff00000000, 0x0000000100000000, 10_000_000_000_000_000_000, 9_999_999_999_999_999_999, 0x0002_7fff_ffff_ffff, 0x18ff_ffff_ffff_ffff}

func genWord(t *rapid.T) uint64 {
	switch ir(t, 0, 3, "wordKind") {
	case 0:
		return hostileWords[ir(t, 0, len(hostileWords)-1, "hostile")]
	case 1:
		return uint64(ir(t, 0, 1000, "small"))
	}
	return u64(t, "word")
}

func TestC02_Words(t *testing.T) {
	ops := map[int][]string{
		128: {"mul", "mul64", "mul1e38", "div", "div10", "div100", "div1000", "div10000", "div1e8", "div1e19", "log10", "lsh", "rsh", "add", "sub"},
		192: {"mul", "mul64", "div", "div10", "div10000", "div1e8", "div1e19", "log10", "msd2", "lsh", "rsh", "pow2"},
		256: {"mul64", "div10", "div10000", "div1e8", "div1e19", "lsh", "rsh"},
	}
	runRapid(t, 60000, 1500000, func(t *rapid.T) {
		w := []int{128, 192, 256}[ir(t, 0, 2, "width")]
		op := ops[w][ir(t, 0, len(ops[w])-1, "op")]
		n := w / 64
		a := hookWordArgs{Width: w, Op: op, A: make([]uint64, n)}
		for i := range a.A {
			a.A[i] = genWord(t)
		}
		// operands with fewer significant words as well
		for i := n - 1; i > 0 && ir(t, 0, 2, "shorten") == 0; i-- {
			a.A[i] = 0
		}
		if w != 256 {
			a.B = make([]uint64, n)
			for i := range a.B {
				a.B[i] = genWord(t)
			}
			for i := n - 1; i > 0 && ir(t, 0, 1, "shortenB") == 0; i-- {
				a.B[i] = 0
			}
			if op == "div" && ir(t, 0, 2, "exactMultiple") == 0 {
				// dividend = q*divisor + r with hostile q and r in {0, 1, divisor-1}: exact divisions and the
				// remainders that sit right at the correction steps of the quotient estimate
				o := wordsToBig(a.B)
				if o.Sign() > 0 {
					qw := make([]uint64, n)
					for i := range qw {
						qw[i] = genWord(t)
					}
					q := wordsToBig(qw)
					// the product fills 1..n words: every branch of the division (dividend shorter than, as long as,
					// longer than the divisor) gets exact multiples and near-multiples
					lim := new(big.Int).Lsh(ref.One, uint(64*ir(t, 1, n, "prodWords")))
					for new(big.Int).Mul(q, o).Cmp(lim) >= 0 && q.Sign() > 0 {
						q.Rsh(q, 17)
					}
					if q.Sign() == 0 {
						q.SetInt64(int64(ir(t, 1, 3, "smallQ")))
					}
					lim.Lsh(ref.One, uint(w))
					v := new(big.Int).Mul(q, o)
					switch ir(t, 0, 2, "rem") {
					case 1:
						v.Add(v, ref.One)
					case 2:
						v.Add(v, new(big.Int).Sub(o, ref.One))
					}
					if v.Cmp(lim) < 0 {
						a.A = bigToWords(v, n)
					}
				}
			} else if op == "div" && ir(t, 0, 2, "knuth") == 0 {
				// the inputs for which the second correction of a quotient-digit estimate exists (Knuth 4.3.1 D3/D6):
				// a divisor whose normalised top word is 2^63 (+ a little) over an all-ones word, and a dividend
				// q*divisor + r whose quotient words are 2^64-1-delta. Random words reach these branches with
				// probability about 2^-62; the statement coverage of int.go showed they were never executed.
				m := ir(t, 2, n, "divisorWords")
				ow := make([]uint64, n)
				ow[m-1] = 0x8000000000000000 + uint64(ir(t, 0, 2, "topPlus"))
				for i := 0; i < m-1; i++ {
					switch ir(t, 0, 2, "lowKind") {
					case 0:
						ow[i] = ^uint64(0) - uint64(ir(t, 0, 2, "lowMinus"))
					case 1:
						ow[i] = 0x8000000000000000 + uint64(ir(t, 0, 2, "lowPlus"))
					default:
						ow[i] = u64(t, "lowWord")
					}
				}
				o := wordsToBig(ow)
				o.Rsh(o, uint(ir(t, 0, 63, "denormalise")))
				if ir(t, 0, 3, "oddify") == 0 {
					o.Or(o, ref.One)
				}
				qn := ir(t, 1, n-m+1, "quotientWords")
				qw := make([]uint64, qn)
				for i := range qw {
					if ir(t, 0, 3, "qKind") == 0 {
						qw[i] = u64(t, "qWord")
					} else {
						qw[i] = ^uint64(0) - uint64(ir(t, 0, 3, "qMinus"))
					}
				}
				q := wordsToBig(qw)
				v := new(big.Int).Mul(q, o)
				switch ir(t, 0, 4, "rem") {
				case 1:
					v.Add(v, ref.One)
				case 2:
					v.Add(v, new(big.Int).Sub(o, ref.One))
				case 3:
					v.Add(v, new(big.Int).Rsh(o, 1))
				case 4:
					v.Add(v, new(big.Int).Sub(o, big.NewInt(2)))
				}
				lim := new(big.Int).Lsh(ref.One, uint(w))
				for v.Cmp(lim) >= 0 {
					v.Rsh(v, 1)
				}
				if o.Sign() > 0 {
					a.A, a.B = bigToWords(v, n), bigToWords(o, n)
					S("C02", "word-primitives").Class("div:knuth-hard")
				}
			} else if op == "div" && ir(t, 0, 2, "closeTop") == 0 {
				// divisor's top word just below / equal to the dividend's: quotient-estimate correction
				for i := n - 1; i >= 0; i-- {
					if a.A[i] != 0 {
						a.B[i] = a.A[i] - uint64(ir(t, 0, 1, "d"))
						break
					}
				}
			}
		}
		a.K = genWord(t)
		if op == "lsh" || op == "rsh" {
			a.K = uint64(ir(t, 0, w, "shift"))
		}
		hookWord.Run(t, a)
	})
}

// TestC02_WordsHostileProduct enumerates uint128.div and uint192.div over the
// complete product of a set of hostile words (all-ones, sign bit, 2^32
// boundaries, powers of ten, the coefficient limits), the patterns for which
// the quotient-estimate correction steps of the division routines exist. Quick
// tier: 9 words (9^6 = 531441 pairs for uint192); thorough tier: all 17 words
// (17^6 = 24.1M pairs), split across shards.
func TestC02_WordsHostileProduct(t *testing.T) {
	st := S("C02", "word-division-hostile-product")
	words := hostileWords
	if cfg.tier != "thorough" {
		words = []uint64{0, 1, 0x7fffffffffffffff, 0x8000000000000000, 0x8000000000000001, 0xffffffffffffffff, 0xfffffffffffffffe, 0x00000000ffffffff, 0xffffffff00000000}
	}
	n := 0
	idx := 0
	check := func(width int, a, b []uint64) {
		idx++
		if idx%cfg.shards != cfg.shard {
			return
		}
		args := hookWordArgs{Width: width, Op: "div", A: a, B: b}
		if wordsToBig(b).Sign() == 0 {
			return
		}
		// direct comparison (the generic check allocates a statistics record per call)
		x, y := wordsToBig(a), wordsToBig(b)
		q, r := new(big.Int).QuoRem(x, y, new(big.Int))
		var got []uint64
		if width == 128 {
			got = d128.VerifU128("div", [2]uint64{a[0], a[1]}, [2]uint64{b[0], b[1]}, 0)
		} else {
			got = d128.VerifU192("div", [3]uint64{a[0], a[1], a[2]}, [3]uint64{b[0], b[1], b[2]}, 0)
		}
		k := width / 64
		want := append(bigToWords(q, k), bigToWords(r, k)...)
		if fmt.Sprint(got) != fmt.Sprint(want) {
			v := violf("uint%d.div(%x, %x) = %x, want %x", width, a, b, got, want)
			hookWord.writeFail(args, v)
			t.Fatalf("%s", v.Msg)
		}
		n++
	}
	for _, a0 := range words {
		for _, a1 := range words {
			for _, b0 := range words {
				for _, b1 := range words {
					check(128, []uint64{a0, a1}, []uint64{b0, b1})
				}
			}
		}
	}
	for _, a0 := range words {
		for _, a1 := range words {
			for _, a2 := range words {
				for _, b0 := range words {
					for _, b1 := range words {
						for _, b2 := range words {
							check(192, []uint64{a0, a1, a2}, []uint64{b0, b1, b2})
						}
					}
				}
			}
		}
	}
	st.Eval(n)
	st.SetExhaustive()
	st.Note("enumerated", fmt.Sprintf("uint128.div and uint192.div over the full product of %d hostile words per operand word", len(words)))
}

func init() {
	// enumerations and word patterns: not argument tuples of a library entry point
	hookReduce.NoHistory()
	hookWord.NoHistory()
}
