package harness

import (
	"math/big"
	"strings"

	d128 "github.com/woodsbury/decimal128"

	"verif/harness/ref"
)

// An independent recogniser and evaluator for the literal syntax that C05
// states: [+-] digits with optional '.', '_' only between digits, optional
// e/E signed exponent; or NaN / Inf / Infinity in any case.

type litClass int

const (
	litInvalid   litClass = iota // not in the documented syntax: must be rejected with ErrSyntax
	litValid                     // in the documented syntax
	litUnclaimed                 // forms the statement does not settle (signed NaN, doubled '_')
)

type literal struct {
	Class    litClass
	Kind     ref.Class // Finite / Inf / NaN
	Neg      bool
	Digits   string // significant digits, leading zeros stripped ("" for zero)
	Exp      int64  // value = 0.Digits... no: value = Digits * 10^Exp (saturated to +-1e12)
	HasSep   bool
	NDigits  int // digits written in the mantissa (before stripping)
	FracLen  int
	IntZeros int // leading zeros written
}

// digitsSep checks digit ( '_'? digit )* on a non-empty part and returns the
// digits without separators. ok=false: malformed; doubled=true: a run of two
// or more '_' between digits (unclaimed).
func digitsSep(p string) (digits string, ok, doubled, sep bool) {
	if p == "" {
		return "", false, false, false
	}
	if p[0] == '_' || p[len(p)-1] == '_' {
		return "", false, false, false
	}
	var b strings.Builder
	prevSep := false
	for i := 0; i < len(p); i++ {
		c := p[i]
		switch {
		case c >= '0' && c <= '9':
			b.WriteByte(c)
			prevSep = false
		case c == '_':
			if prevSep {
				doubled = true
			}
			prevSep = true
			sep = true
		default:
			return "", false, false, false
		}
	}
	return b.String(), true, doubled, sep
}

func classifyLiteral(s string) literal {
	var l literal
	t := s
	signed := false
	if t != "" && (t[0] == '+' || t[0] == '-') {
		l.Neg = t[0] == '-'
		signed = true
		t = t[1:]
	}
	switch strings.ToLower(t) {
	case "nan":
		l.Kind = ref.NaN
		l.Class = litValid
		if signed {
			l.Class = litUnclaimed
		}
		return l
	case "inf", "infinity":
		l.Kind = ref.Inf
		l.Class = litValid
		return l
	}
	mant, expPart, hasExp := t, "", false
	if i := strings.IndexAny(t, "eE"); i >= 0 {
		mant, expPart, hasExp = t[:i], t[i+1:], true
	}
	intPart, fracPart, hasDot := mant, "", false
	if i := strings.IndexByte(mant, '.'); i >= 0 {
		intPart, fracPart, hasDot = mant[:i], mant[i+1:], true
	}
	_ = hasDot
	unclaimed := false
	var intDigits, fracDigits string
	if intPart != "" {
		d, ok, dbl, sep := digitsSep(intPart)
		if !ok {
			return l
		}
		intDigits, unclaimed, l.HasSep = d, unclaimed || dbl, l.HasSep || sep
	}
	if fracPart != "" {
		d, ok, dbl, sep := digitsSep(fracPart)
		if !ok {
			return l
		}
		fracDigits, unclaimed, l.HasSep = d, unclaimed || dbl, l.HasSep || sep
	}
	if intDigits == "" && fracDigits == "" {
		return l // no digit at all ("." / "" / "+" / "e5")
	}
	var e int64
	if hasExp {
		ep := expPart
		eneg := false
		if ep != "" && (ep[0] == '+' || ep[0] == '-') {
			eneg = ep[0] == '-'
			ep = ep[1:]
		}
		d, ok, dbl, sep := digitsSep(ep)
		if !ok {
			return l
		}
		unclaimed, l.HasSep = unclaimed || dbl, l.HasSep || sep
		d = strings.TrimLeft(d, "0")
		if len(d) > 12 {
			e = 1_000_000_000_000
		} else {
			for i := 0; i < len(d); i++ {
				e = e*10 + int64(d[i]-'0')
			}
		}
		if eneg {
			e = -e
		}
	}
	all := intDigits + fracDigits
	l.NDigits = len(all)
	l.FracLen = len(fracDigits)
	stripped := strings.TrimLeft(all, "0")
	l.IntZeros = len(all) - len(stripped)
	l.Digits = stripped
	l.Exp = e - int64(len(fracDigits))
	l.Kind = ref.Finite
	l.Class = litValid
	if unclaimed {
		l.Class = litUnclaimed
	}
	return l
}

// expected returns what a correctly rounding parser returns for the valid
// finite literal under mode m: the Decimal value, and whether the magnitude
// rounds above the largest finite value (ErrRange). alt, when non-nil, is a
// second acceptable value (below 1e-6177 the statement says "signed zero" while
// a directed mode would select the smallest subnormal).
func (l literal) expected(m d128.RoundingMode) (want ref.Num, overflow bool, alt *ref.Num) {
	zero := ref.Num{Class: ref.Finite, Neg: l.Neg, Coef: new(big.Int)}
	if l.Digits == "" {
		return zero, false, nil
	}
	lead := int64(len(l.Digits)) + l.Exp // |v| in [10^(lead-1), 10^lead)
	if lead-1 >= 6146 {
		return ref.Num{Class: ref.Inf, Neg: l.Neg}, true, nil
	}
	if lead <= -6178 {
		// |v| < 1e-6178: the statement says signed zero
		tiny := ref.Num{Class: ref.Finite, Neg: l.Neg, Coef: big.NewInt(1), Exp: ref.Emin}
		if ref.RoundsUp(m, l.Neg, -1, false) {
			return zero, false, &tiny
		}
		return zero, false, nil
	}
	digits := l.Digits
	exp := l.Exp
	if len(digits) > 60 {
		// keep 50 digits and a sticky digit: rounding at any position above is unchanged
		head, tail := digits[:50], digits[50:]
		sticky := "0"
		if strings.Trim(tail, "0") != "" {
			sticky = "1"
		}
		exp += int64(len(tail)) - 1
		digits = head + sticky
	}
	num, _ := new(big.Int).SetString(digits, 10)
	x := ref.X{Neg: l.Neg, Num: num, Den: ref.One, Exp: int(exp)}
	want = ref.RoundX(x, m, true)
	if want.Class == ref.Inf {
		return want, true, nil
	}
	if ref.BelowFlush(x) {
		noflush := ref.RoundX(x, m, false)
		if !ref.SameVal(noflush, want) {
			return want, false, &noflush
		}
	}
	return want, false, nil
}
