package harness

import (
	"fmt"
	"math/big"
	"strings"
	"testing"

	d128 "github.com/woodsbury/decimal128"
	"pgregory.net/rapid"

	"verif/harness/ref"
)

// C19 — results depend on operand values, not encodings; Canonical is a normal form.

// valueSig is a cohort-insensitive signature of a Decimal result.
func valueSig(d d128.Decimal, withPayload bool) string {
	n := ref.Decode(d)
	switch n.Class {
	case ref.NaN:
		if withPayload {
			return "NaN:" + d.Payload().String()
		}
		return "NaN"
	case ref.Inf:
		if n.Neg {
			return "-Inf"
		}
		return "+Inf"
	}
	s := "+"
	if n.Neg {
		s = "-"
	}
	if n.Coef.Sign() == 0 {
		return s + "0"
	}
	tz := ref.TrailingZeros(n.Coef)
	c := new(big.Int).Quo(n.Coef, ref.Pow10(tz))
	return fmt.Sprintf("%s%se%d", s, c, n.Exp+tz)
}

type c19Scalars struct {
	I    int
	Mode d128.RoundingMode
	Spec string
	Verb byte
	Prec int
}

type c19Op struct {
	name  string
	arity int
	// needs: predicate on operand classes for which the operation is defined (no documented panic)
	ok  func(x, y ref.Num) bool
	run func(x, y d128.Decimal, s c19Scalars, pl bool) []string
}

func fin(n ref.Num) bool       { return n.Class == ref.Finite }
func notNaN(n ref.Num) bool    { return n.Class != ref.NaN }
func always(x, y ref.Num) bool { return true }

func sigs(pl bool, ds ...d128.Decimal) []string {
	out := make([]string, len(ds))
	for i, d := range ds {
		out[i] = valueSig(d, pl)
	}
	return out
}

var c19Ops = []c19Op{
	{"Add", 2, always, func(x, y d128.Decimal, s c19Scalars, pl bool) []string { return sigs(pl, x.Add(y)) }},
	{"Sub", 2, always, func(x, y d128.Decimal, s c19Scalars, pl bool) []string { return sigs(pl, x.Sub(y)) }},
	{"Mul", 2, always, func(x, y d128.Decimal, s c19Scalars, pl bool) []string { return sigs(pl, x.Mul(y)) }},
	{"Quo", 2, always, func(x, y d128.Decimal, s c19Scalars, pl bool) []string { return sigs(pl, x.Quo(y)) }},
	{"AddWithMode", 2, always, func(x, y d128.Decimal, s c19Scalars, pl bool) []string { return sigs(pl, x.AddWithMode(y, s.Mode)) }},
	{"SubWithMode", 2, always, func(x, y d128.Decimal, s c19Scalars, pl bool) []string { return sigs(pl, x.SubWithMode(y, s.Mode)) }},
	{"MulWithMode", 2, always, func(x, y d128.Decimal, s c19Scalars, pl bool) []string { return sigs(pl, x.MulWithMode(y, s.Mode)) }},
	{"QuoWithMode", 2, always, func(x, y d128.Decimal, s c19Scalars, pl bool) []string { return sigs(pl, x.QuoWithMode(y, s.Mode)) }},
	{"QuoRem", 2, always, func(x, y d128.Decimal, s c19Scalars, pl bool) []string { q, r := x.QuoRem(y); return sigs(pl, q, r) }},
	{"QuoRemWithMode", 2, always, func(x, y d128.Decimal, s c19Scalars, pl bool) []string {
		q, r := x.QuoRemWithMode(y, s.Mode)
		return sigs(pl, q, r)
	}},
	{"Pow", 2, always, func(x, y d128.Decimal, s c19Scalars, pl bool) []string { return sigs(pl, x.Pow(y)) }},
	{"PowWithMode", 2, always, func(x, y d128.Decimal, s c19Scalars, pl bool) []string { return sigs(pl, x.PowWithMode(y, s.Mode)) }},
	{"Cmp", 2, always, func(x, y d128.Decimal, s c19Scalars, pl bool) []string {
		c := x.Cmp(y)
		return []string{fmt.Sprint(c.Less(), c.Equal(), c.Greater(), c.LessOrEqual(), c.GreaterOrEqual())}
	}},
	{"CmpAbs", 2, always, func(x, y d128.Decimal, s c19Scalars, pl bool) []string {
		c := x.CmpAbs(y)
		return []string{fmt.Sprint(c.Less(), c.Equal(), c.Greater())}
	}},
	{"Equal", 2, always, func(x, y d128.Decimal, s c19Scalars, pl bool) []string { return []string{fmt.Sprint(x.Equal(y))} }},
	{"Compare", 2, always, func(x, y d128.Decimal, s c19Scalars, pl bool) []string {
		return []string{fmt.Sprint(d128.Compare(x, y))}
	}},
	{"Min", 2, always, func(x, y d128.Decimal, s c19Scalars, pl bool) []string { return sigs(false, d128.Min(x, y)) }},
	{"Max", 2, always, func(x, y d128.Decimal, s c19Scalars, pl bool) []string { return sigs(false, d128.Max(x, y)) }},

	{"Abs", 1, always, func(x, _ d128.Decimal, s c19Scalars, pl bool) []string { return sigs(false, d128.Abs(x)) }},
	{"Neg", 1, always, func(x, _ d128.Decimal, s c19Scalars, pl bool) []string { return sigs(false, x.Neg()) }},
	{"Canonical", 1, always, func(x, _ d128.Decimal, s c19Scalars, pl bool) []string {
		c := x.Canonical()
		h, l := ref.Bits(c)
		return []string{fmt.Sprintf("%016x%016x", h, l)}
	}},
	{"Ceil()", 1, always, func(x, _ d128.Decimal, s c19Scalars, pl bool) []string { return sigs(false, d128.Ceil(x)) }},
	{"Floor()", 1, always, func(x, _ d128.Decimal, s c19Scalars, pl bool) []string { return sigs(false, d128.Floor(x)) }},
	{"Round()", 1, always, func(x, _ d128.Decimal, s c19Scalars, pl bool) []string { return sigs(false, d128.Round(x)) }},
	{"Trunc()", 1, always, func(x, _ d128.Decimal, s c19Scalars, pl bool) []string { return sigs(false, d128.Trunc(x)) }},
	{"Round(dp,m)", 1, always, func(x, _ d128.Decimal, s c19Scalars, pl bool) []string { return sigs(false, x.Round(s.I, s.Mode)) }},
	{"Ceil(dp)", 1, always, func(x, _ d128.Decimal, s c19Scalars, pl bool) []string { return sigs(false, x.Ceil(s.I)) }},
	{"Floor(dp)", 1, always, func(x, _ d128.Decimal, s c19Scalars, pl bool) []string { return sigs(false, x.Floor(s.I)) }},
	{"Sqrt", 1, always, func(x, _ d128.Decimal, s c19Scalars, pl bool) []string { return sigs(pl, d128.Sqrt(x)) }},
	{"Cbrt", 1, always, func(x, _ d128.Decimal, s c19Scalars, pl bool) []string { return sigs(pl, d128.Cbrt(x)) }},
	{"Exp", 1, always, func(x, _ d128.Decimal, s c19Scalars, pl bool) []string { return sigs(pl, d128.Exp(x)) }},
	{"Exp2", 1, always, func(x, _ d128.Decimal, s c19Scalars, pl bool) []string { return sigs(pl, d128.Exp2(x)) }},
	{"Exp10", 1, always, func(x, _ d128.Decimal, s c19Scalars, pl bool) []string { return sigs(pl, d128.Exp10(x)) }},
	{"Expm1", 1, always, func(x, _ d128.Decimal, s c19Scalars, pl bool) []string { return sigs(pl, d128.Expm1(x)) }},
	{"Log", 1, always, func(x, _ d128.Decimal, s c19Scalars, pl bool) []string { return sigs(pl, d128.Log(x)) }},
	{"Log2", 1, always, func(x, _ d128.Decimal, s c19Scalars, pl bool) []string { return sigs(pl, d128.Log2(x)) }},
	{"Log10", 1, always, func(x, _ d128.Decimal, s c19Scalars, pl bool) []string { return sigs(pl, d128.Log10(x)) }},
	{"Log1p", 1, always, func(x, _ d128.Decimal, s c19Scalars, pl bool) []string { return sigs(pl, d128.Log1p(x)) }},
	{"Frexp", 1, always, func(x, _ d128.Decimal, s c19Scalars, pl bool) []string {
		f, e := d128.Frexp(x)
		return []string{valueSig(f, false), fmt.Sprint(e)}
	}},
	{"Ldexp", 1, always, func(x, _ d128.Decimal, s c19Scalars, pl bool) []string { return sigs(false, d128.Ldexp(x, s.I)) }},
	{"IsZero/IsNaN/IsInf/Signbit", 1, always, func(x, _ d128.Decimal, s c19Scalars, pl bool) []string {
		return []string{fmt.Sprint(x.IsZero(), x.IsNaN(), x.IsInf(0), x.IsInf(1), x.IsInf(-1), x.Signbit())}
	}},
	{"Sign", 1, func(x, _ ref.Num) bool { return notNaN(x) }, func(x, _ d128.Decimal, s c19Scalars, pl bool) []string { return []string{fmt.Sprint(x.Sign())} }},
	{"Float64/Float32", 1, always, func(x, _ d128.Decimal, s c19Scalars, pl bool) []string {
		return []string{fmt.Sprintf("%x %x", x.Float64(), x.Float32())}
	}},
	{"Float", 1, func(x, _ ref.Num) bool { return notNaN(x) }, func(x, _ d128.Decimal, s c19Scalars, pl bool) []string {
		var recv *big.Float
		if s.Prec > 0 {
			recv = new(big.Float).SetPrec(uint(s.Prec))
		}
		return []string{x.Float(recv).Text('p', 0)}
	}},
	{"Int", 1, func(x, _ ref.Num) bool { return fin(x) && x.Exp < 400 }, func(x, _ d128.Decimal, s c19Scalars, pl bool) []string { return []string{x.Int(nil).String()} }},
	{"Int64/Int32/Uint64/Uint32", 1, func(x, _ ref.Num) bool { return notNaN(x) }, func(x, _ d128.Decimal, s c19Scalars, pl bool) []string {
		a, ok1 := x.Int64()
		b, ok2 := x.Int32()
		c, ok3 := x.Uint64()
		d, ok4 := x.Uint32()
		return []string{fmt.Sprint(a, ok1, b, ok2, c, ok3, d, ok4)}
	}},
	{"Rat", 1, func(x, _ ref.Num) bool { return fin(x) && x.Exp < 400 && x.Exp > -400 }, func(x, _ d128.Decimal, s c19Scalars, pl bool) []string { return []string{x.Rat(nil).String()} }},
	{"String", 1, always, func(x, _ d128.Decimal, s c19Scalars, pl bool) []string { return []string{x.String()} }},
	{"MarshalText", 1, always, func(x, _ d128.Decimal, s c19Scalars, pl bool) []string {
		b, _ := x.MarshalText()
		return []string{string(b)}
	}},
	{"MarshalJSON", 1, always, func(x, _ d128.Decimal, s c19Scalars, pl bool) []string {
		b, err := x.MarshalJSON()
		return []string{string(b), fmt.Sprint(err != nil)}
	}},
	{"Sprintf", 1, always, func(x, _ d128.Decimal, s c19Scalars, pl bool) []string { return []string{fmt.Sprintf("%"+s.Spec, x)} }},
	{"Decimal.Append", 1, always, func(x, _ d128.Decimal, s c19Scalars, pl bool) []string {
		return []string{string(x.Append([]byte("p"), s.Spec))}
	}},
	{"Format", 1, always, func(x, _ d128.Decimal, s c19Scalars, pl bool) []string {
		return []string{d128.Format(x, s.Verb, s.Prec)}
	}},
	{"Append", 1, always, func(x, _ d128.Decimal, s c19Scalars, pl bool) []string {
		return []string{string(d128.Append(nil, x, s.Verb, s.Prec))}
	}},
	{"%v", 1, always, func(x, _ d128.Decimal, s c19Scalars, pl bool) []string { return []string{fmt.Sprintf("%v", x)} }},
	{"Decompose(value)", 1, always, func(x, _ d128.Decimal, s c19Scalars, pl bool) []string {
		form, neg, coef, exp := x.Decompose(nil)
		if form != 0 {
			return []string{fmt.Sprint(form, neg && form == 1)}
		}
		c := new(big.Int).SetBytes(coef)
		if c.Sign() == 0 {
			return []string{fmt.Sprint(0, neg, "0")}
		}
		tz := ref.TrailingZeros(c)
		c.Quo(c, ref.Pow10(tz))
		return []string{fmt.Sprint(0, neg, c, int(exp)+tz)}
	}},
}

var c19OpIndex = func() map[string]*c19Op {
	m := map[string]*c19Op{}
	for i := range c19Ops {
		m[c19Ops[i].name] = &c19Ops[i]
	}
	return m
}()

type c19Args struct {
	Op    string
	X, X2 D
	Y, Y2 D
	I     int
	Mode  uint8
	Spec  string
	Verb  string
	Prec  int
	// DefMode is the DefaultRoundingMode during the evaluation (index into ref.Modes; 0 = nearest-even)
	DefMode uint8 `json:",omitempty"`
}

func sameValueOrBothNaN(a, b ref.Num) bool { return ref.SameVal(a, b) }

var c19 = Register("C19", "C19.cohort", func(a c19Args) *Violation {
	st := S("C19", "cohort")
	st.Eval(1)
	op := c19OpIndex[a.Op]
	if op == nil || len(a.Verb) != 1 {
		return nil
	}
	nx, nx2, ny, ny2 := a.X.Num(), a.X2.Num(), a.Y.Num(), a.Y2.Num()
	if !sameValueOrBothNaN(nx, nx2) || !sameValueOrBothNaN(ny, ny2) {
		return nil // not two encodings of the same value: outside the relation
	}
	if !op.ok(nx, ny) {
		return nil
	}
	sc := c19Scalars{I: a.I, Mode: d128.RoundingMode(a.Mode % 6), Spec: a.Spec, Verb: a.Verb[0], Prec: a.Prec}
	// the mode-less forms (Add, Quo, Pow, the elementary functions, conversions) read DefaultRoundingMode:
	// the relation must hold under each of its values
	oldMode := d128.DefaultRoundingMode
	d128.DefaultRoundingMode = d128.RoundingMode(a.DefMode % 6)
	defer func() { d128.DefaultRoundingMode = oldMode }()
	// invalid-operation payloads are compared only when no operand is itself a NaN
	pl := nx.Class != ref.NaN && (op.arity == 1 || ny.Class != ref.NaN)
	base := op.run(a.X.Dec(), a.Y.Dec(), sc, pl)
	variants := [][2]D{{a.X2, a.Y}, {a.X, a.Y2}, {a.X2, a.Y2}}
	if op.arity == 1 {
		variants = variants[:1]
	}
	for _, v := range variants {
		got := op.run(v[0].Dec(), v[1].Dec(), sc, pl)
		if strings.Join(got, "|") != strings.Join(base, "|") {
			if op.arity == 1 {
				return violf("%s(%s) = %v but with the same value encoded as %s = %v (scalars %+v)", a.Op, a.X, base, v[0], got, sc)
			}
			return violf("%s(%s, %s) = %v but with the same values encoded as (%s, %s) = %v (scalars %+v)", a.Op, a.X, a.Y, base, v[0], v[1], got, sc)
		}
	}
	st.Class(a.Op)
	if a.X != a.X2 || (op.arity == 2 && a.Y != a.Y2) {
		st.NT(hashWords(hashString(a.Op), a.X.Hi, a.X.Lo, a.X2.Hi, a.X2.Lo, a.Y.Hi, a.Y.Lo, a.Y2.Hi, a.Y2.Lo, uint64(a.I), uint64(a.Mode), hashString(a.Spec)), func() any {
			m := map[string]any{"op": a.Op, "x": a.X.String(), "x_other_encoding": a.X2.String(), "result": base}
			if op.arity == 2 {
				m["y"], m["y_other_encoding"] = a.Y.String(), a.Y2.String()
			}
			return m
		})
	}
	return nil
})

// ---- Canonical ---------------------------------------------------------------------

type c19CanonArgs struct {
	A, B D
}

func expectedCanonical(n ref.Num) D {
	switch n.Class {
	case ref.NaN:
		return D{0x7c00000000000000, 0}
	case ref.Inf:
		if n.Neg {
			return D{0xf800000000000000, 0}
		}
		return D{0x7800000000000000, 0}
	}
	if n.IsZero() {
		if n.Neg {
			return D{0x8000000000000000, 0}
		}
		return D{0, 0}
	}
	co := cohort(n)
	best := co[0]
	for _, c := range co {
		if abs(c.Num().Exp) < abs(best.Num().Exp) {
			best = c
		}
	}
	return best
}

func abs(i int) int {
	if i < 0 {
		return -i
	}
	return i
}

var c19canon = Register("C19", "C19.canonical", func(a c19CanonArgs) *Violation {
	st := S("C19", "canonical")
	st.Eval(1)
	da, db := a.A.Dec(), a.B.Dec()
	na, nb := a.A.Num(), a.B.Num()
	ca, cb := da.Canonical(), db.Canonical()
	for _, p := range []struct {
		d D
		n ref.Num
		c d128.Decimal
	}{{a.A, na, ca}, {a.B, nb, cb}} {
		nc := ref.Decode(p.c)
		if !ref.SameVal(nc, p.n) {
			return violf("Canonical(%s) = %s changes the value", p.d, DOf(p.c))
		}
		if p.n.Class == ref.Finite && !(p.c.Equal(p.d.Dec()) && p.c.Signbit() == p.d.Dec().Signbit()) {
			return violf("Canonical(%s) = %s is not Equal to its argument", p.d, DOf(p.c))
		}
		if again := p.c.Canonical(); again != p.c {
			return violf("Canonical is not idempotent on %s: %s then %s", p.d, DOf(p.c), DOf(again))
		}
		if want := expectedCanonical(p.n); DOf(p.c) != want {
			return violf("Canonical(%s) = %s, want %s (payload/garbage stripped, exponent closest to zero that holds all digits)", p.d, DOf(p.c), want)
		}
	}
	if na.Class == ref.Finite && nb.Class == ref.Finite {
		equal := da.Equal(db) && (!na.IsZero() || na.Neg == nb.Neg)
		if (ca == cb) != equal {
			return violf("Canonical(%s) == Canonical(%s) is %v but Equal (with zero signs) is %v", a.A, a.B, ca == cb, equal)
		}
		if equal {
			st.Class("equal-pair")
		} else {
			st.Class("unequal-pair")
		}
	} else {
		st.Class("special")
	}
	if a.A != a.B {
		st.NT(hashWords(a.A.Hi, a.A.Lo, a.B.Hi, a.B.Lo), func() any {
			return map[string]any{"a": a.A.String(), "b": a.B.String(), "canonical_a": DOf(ca).String()}
		})
	}
	return nil
})

// ---- generators ------------------------------------------------------------------------

// genCohortRich draws values with large cohorts (few significant digits) as well as arbitrary ones.
func genCohortRich(t *rapid.T) D {
	switch ir(t, 0, 10, "richKind") {
	case 10:
		// just below (or on) a power of ten: every table of powers of ten is consulted with such values (digit
		// counts, "is this one?", "is this minus one?"), and a wrong entry shows only within its error of 10^k
		k := ir(t, 1, 34, "k")
		c := new(big.Int).Sub(ref.Pow10(k), bi(int64([]int{0, 1, 1, 2, 3, 1000, 900000}[ir(t, 0, 6, "below")])))
		if c.Sign() <= 0 {
			c = new(big.Int).Sub(ref.Pow10(k), ref.One)
		}
		e := genExp(t)
		if ir(t, 0, 2, "unit") == 0 {
			e = -k // the value 1 (or just below it) written with k digits
		}
		return DFin(genSign(t), c, clampExp(e))
	case 0:
		return genSpecial(t)
	case 1:
		return genZero(t)
	case 2, 3, 4:
		// few digits: up to 35 encodings; a third of them with leading digits 10..129, the values that have a
		// 35-digit encoding at all
		c := genDigits(t, ir(t, 1, 6, "len"))
		if ir(t, 0, 2, "lead1") == 0 {
			c = bi(int64(ir(t, 10, 129, "c1")))
		}
		return DFin(genSign(t), c, genExp(t))
	case 5:
		// moderate magnitudes where the elementary functions are in range
		return DFin(genSign(t), genDigits(t, ir(t, 1, 12, "len")), ir(t, -30, 8, "e"))
	case 6:
		// small integers and simple fractions
		return DFin(genSign(t), bi(int64(ir(t, 1, 999, "n"))), ir(t, -3, 2, "e"))
	}
	return genFinite(t)
}

func TestC19_Cohort(t *testing.T) {
	runRapid(t, 40000, 2000000, func(t *rapid.T) {
		op := c19Ops[ir(t, 0, len(c19Ops)-1, "op")]
		a := c19Args{Op: op.name, Mode: uint8(ir(t, 0, 5, "mode")), Spec: genSpec(t), Verb: string("eEfgG"[ir(t, 0, 4, "verb")]), Prec: ir(t, -1, 40, "prec")}
		if ir(t, 0, 1, "otherDefault") == 0 {
			a.DefMode = uint8(ir(t, 1, 5, "defMode"))
		}
		a.X = genCohortRich(t)
		switch op.name {
		case "Float64/Float32", "Float", "Int", "Int64/Int32/Uint64/Uint32":
			// conversions decide "too small / too large" from the stored exponent before they look at the digits:
			// put short coefficients (rich cohorts) at the ends of the target type's range
			if ir(t, 0, 1, "rangeEnd") == 0 {
				lead := []int{-324, -308, 308, -45, -38, 38, 19, 9, 0}[ir(t, 0, 8, "end")] + ir(t, -3, 3, "leadOff")
				c := genDigits(t, ir(t, 1, 6, "len"))
				a.X = DFin(genSign(t), c, clampExp(lead-ref.DecLen(c)+1))
			}
		}
		a.X2 = genCohortMember(t, a.X)
		if op.arity == 2 {
			yKind := ir(t, 0, 4, "yKind")
			switch op.name {
			case "Cmp", "CmpAbs", "Equal", "Compare", "Min", "Max":
				// comparisons are decided by the last aligned digits: mostly near-equal operands
				if ir(t, 0, 2, "nearForCmp") != 0 {
					yKind = 1
				}
			}
			if nx := a.X.Num(); nx.Class == ref.Finite && nx.IsZero() && (op.name == "Min" || op.name == "Max" || op.name == "Compare") && ir(t, 0, 1, "zeroPair") == 0 {
				// signed zeros in different encodings: the tie-break of Min/Max is the only place their signs matter
				a.Y = genZero(t) // the package's own zero in a quarter of the draws: the relation needs one pair in that form
				a.Y.Hi = a.Y.Hi&^(1<<63) | (^a.X.Hi)&(1<<63)
				a.Y2 = genCohortMember(t, a.Y)
				yKind = -1
			}
			switch yKind {
			case -1:
			case 0:
				a.Y = genCohortMember(t, a.X) // same value: cancellation, equality arms
			case 1:
				a.Y = genNearValue(t, a.X)
			case 2:
				// an operand that lies entirely in the rounding/sticky region of the other: its
				// encoding (trailing zeros) decides which alignment arm discards which of its digits
				nx := a.X.Num()
				if nx.Class != ref.Finite || nx.IsZero() {
					a.Y = genCohortRich(t)
					break
				}
				pat := []string{"5", "1", "50000001", "5000001", "49999999", "500000000000001", "7", "25"}[ir(t, 0, 7, "pattern")]
				pc, _ := new(big.Int).SetString(pat, 10)
				p := nx.Exp + ref.DecLen(nx.Coef) - 34 // exponent of the last digit of a 34-digit result
				lead := p - 1 - ir(t, 0, 3, "below")   // exponent of y's leading digit
				a.Y = DFin(genSign(t), pc, clampExp(lead-len(pat)+1))
			default:
				a.Y = genCohortRich(t)
			}
			if (op.name == "Pow" || op.name == "PowWithMode") && ir(t, 0, 3, "unitOperand") == 0 {
				// plus or minus one, in the shortest or the 35-digit encoding, as base or as exponent: the shortcuts
				// 1**y, x**1, x**-1, (-1)**Inf all hinge on recognising every encoding of one
				one := DFin(genSign(t), bi(1), 0)
				other := genCohortRich(t)
				if ir(t, 0, 2, "special") == 0 {
					other = genSpecial(t)
				}
				if rapid.Bool().Draw(t, "oneIsBase") {
					a.X, a.Y = one, other
				} else {
					a.X, a.Y = other, one
				}
				a.X2 = genCohortMember(t, a.X)
			} else if op.name == "Pow" || op.name == "PowWithMode" {
				if ir(t, 0, 1, "smallPow") == 0 {
					a.Y = DFin(genSign(t), bi(int64(ir(t, 0, 40, "n"))), ir(t, -2, 1, "e"))
				}
			}
			a.Y2 = genCohortMember(t, a.Y)
		}
		switch op.name {
		case "Ldexp":
			a.I = ir(t, -6300, 6300, "k")
		case "Float":
			a.Prec = ir(t, 0, 200, "fprec")
		default:
			n := a.X.Num()
			if rapid.Bool().Draw(t, "dpOfX2") {
				n = a.X2.Num() // the cut measured from the other encoding's digits
			}
			if n.Class == ref.Finite && strings.Contains(op.name, "(dp") && rapid.Bool().Draw(t, "cutAtEnd") {
				// the cut exactly at, or one off, either end of this encoding's digits (and of a 34/35-digit one)
				nd := ref.DecLen(n.Coef)
				a.I = -(n.Exp + []int{-1, 0, 1, nd - 1, nd, nd + 1, 34, 35, 36}[ir(t, 0, 8, "cut")])
			} else if n.Class == ref.Finite && ir(t, 0, 3, "dpNear") != 0 {
				a.I = -(n.Exp + ir(t, -3, 38, "j"))
			} else {
				a.I = ir(t, -6300, 6300, "dp")
			}
		}
		c19.Run(t, a)
	})
}

func TestC19_Canonical(t *testing.T) {
	runRapid(t, 60000, 3000000, func(t *rapid.T) {
		a := genCohortRich(t)
		if ir(t, 0, 3, "anyA") == 0 {
			a = genAny(t)
		}
		if ir(t, 0, 9, "topBand") == 0 {
			// coefficients next to the first k digits of the largest coefficient, at exponents on either side of
			// zero: whether Canonical can take one more step towards exponent zero is decided within 2^64 of
			// Cmax/10^j
			c, _ := topBandLead(t, 35)
			a = DFin(genSign(t), c, ir(t, -40, 40, "e"))
			if rapid.Bool().Draw(t, "anyExp") {
				a = DFin(genSign(t), c, genExp(t))
			}
		}
		var b D
		switch ir(t, 0, 3, "bKind") {
		case 0, 1:
			b = genCohortMember(t, a)
		case 2:
			b = genNearValue(t, a)
		default:
			b = genAny(t)
		}
		c19canon.Run(t, c19CanonArgs{A: a, B: b})
	})
}
