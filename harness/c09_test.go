package harness

import (
	"math"
	"math/big"
	"strconv"
	"testing"

	d128 "github.com/woodsbury/decimal128"
	"pgregory.net/rapid"

	"verif/harness/ref"
)

// C09 — binary floating-point conversions are exact one way and faithful the other.

func fstr(f float64) string { return strconv.FormatFloat(f, 'g', -1, 64) }

// ---- float -> Decimal --------------------------------------------------------

type c09FromArgs struct {
	Bits64 uint64
	Bits32 uint32
}

func exactOfFloat64(f float64) ref.X {
	// f = m * 2^e exactly
	fr, e := math.Frexp(math.Abs(f))
	m := new(big.Int).SetUint64(uint64(fr * (1 << 53)))
	e -= 53
	x := ref.X{Neg: math.Signbit(f), Num: m, Den: ref.One}
	if e >= 0 {
		x.Num = new(big.Int).Lsh(m, uint(e))
	} else {
		x.Den = new(big.Int).Lsh(ref.One, uint(-e))
	}
	return x
}

func checkFromFloat(name string, f float64, got d128.Decimal, st *Stat) *Violation {
	g := ref.Decode(got)
	switch {
	case math.IsNaN(f):
		if g.Class != ref.NaN {
			return violf("%s(NaN) = %s", name, g)
		}
		st.Class("nan")
		return nil
	case math.IsInf(f, 0):
		if g.Class != ref.Inf || g.Neg != (f < 0) {
			return violf("%s(%v) = %s", name, f, g)
		}
		st.Class("inf")
		return nil
	case f == 0:
		if !g.IsZero() || g.Neg != math.Signbit(f) {
			return violf("%s(%v) = %s", name, f, g)
		}
		st.Class("zero")
		return nil
	}
	x := exactOfFloat64(f)
	want := ref.RoundX(x, d128.ToNearestEven, false)
	if !ref.SameVal(g, want) {
		return violf("%s(%v = %s) = %s, want %s", name, f, abbr(x.String()), g, want)
	}
	return nil
}

var c09from = Register("C09", "C09.fromfloat", func(a c09FromArgs) *Violation {
	st := S("C09", "fromfloat")
	st.Eval(1)
	f := math.Float64frombits(a.Bits64)
	primedUnderAnotherMode(hashWords(a.Bits64, uint64(a.Bits32)), func() {
		_ = d128.FromFloat64(f)
		_ = d128.FromFloat32(math.Float32frombits(a.Bits32))
	})
	d := d128.FromFloat64(f)
	if v := checkFromFloat("FromFloat64", f, d, st); v != nil {
		return v
	}
	f32 := math.Float32frombits(a.Bits32)
	d32 := d128.FromFloat32(f32)
	if v := checkFromFloat("FromFloat32", float64(f32), d32, st); v != nil {
		return v
	}
	// round trips
	if !math.IsNaN(f) {
		if back := d.Float64(); math.Float64bits(back) != a.Bits64 {
			return violf("FromFloat64(%v).Float64() = %v (bits %016x, want %016x)", f, back, math.Float64bits(back), a.Bits64)
		}
	}
	if f32 == f32 {
		if back := d32.Float32(); math.Float32bits(back) != a.Bits32 {
			return violf("FromFloat32(%v).Float32() = %v", f32, back)
		}
	}
	if f64 := float64(f32); f32 == f32 && !math.IsInf(f64, 0) && f32 != 0 {
		if k, _ := inexactClass(exactOfFloat64(f64)); k == "exact" {
			if v := exactInAllModes("FromFloat32("+fstr(f64)+")", d32, func() d128.Decimal { return d128.FromFloat32(f32) }); v != nil {
				return v
			}
		}
	}
	if !math.IsNaN(f) && !math.IsInf(f, 0) && f != 0 {
		x := exactOfFloat64(f)
		k, _ := inexactClass(x)
		if k == "exact" {
			if v := exactInAllModes("FromFloat64("+fstr(f)+")", d, func() d128.Decimal { return d128.FromFloat64(f) }); v != nil {
				return v
			}
		}
		_, e := math.Frexp(f)
		switch {
		case a.Bits64<<1>>53 == 0:
			st.Class("float64-subnormal/" + k)
		case e-53 > 192 || e-53 < -192:
			st.Class("float64-|binexp|>192/" + k)
		default:
			st.Class("float64-|binexp|<=192/" + k)
		}
		if k != "exact" {
			st.NT(hashWords(a.Bits64, uint64(a.Bits32)), func() any {
				return map[string]any{"float64": fstr(f), "float32": fstr(float64(f32)), "class": k}
			})
		}
	}
	return nil
})

// ---- Decimal -> float ---------------------------------------------------------

type c09ToArgs struct {
	V D
}

// bracket returns the acceptable results for a faithful conversion of the
// exact rational v to a float64/float32 (as float64 values): one value when v
// is representable, else the two neighbours.
func bracket64(v *big.Rat) (lo, hi float64) {
	n, exact := v.Float64()
	if exact {
		return n, n
	}
	if math.IsInf(n, 0) {
		if n > 0 {
			return math.MaxFloat64, n
		}
		return n, -math.MaxFloat64
	}
	if new(big.Rat).SetFloat64(n).Cmp(v) < 0 {
		return n, math.Nextafter(n, math.Inf(1))
	}
	return math.Nextafter(n, math.Inf(-1)), n
}

func bracket32(v *big.Rat) (lo, hi float32) {
	n, exact := v.Float32()
	if exact {
		return n, n
	}
	if math.IsInf(float64(n), 0) {
		if n > 0 {
			return math.MaxFloat32, n
		}
		return n, -math.MaxFloat32
	}
	if new(big.Rat).SetFloat64(float64(n)).Cmp(v) < 0 {
		return n, math.Nextafter32(n, float32(math.Inf(1)))
	}
	return math.Nextafter32(n, float32(math.Inf(-1))), n
}

var two1024 = new(big.Rat).SetInt(new(big.Int).Lsh(ref.One, 1024))
var two128 = new(big.Rat).SetInt(new(big.Int).Lsh(ref.One, 128))

var c09to = Register("C09", "C09.tofloat", func(a c09ToArgs) *Violation {
	st := S("C09", "tofloat")
	st.Eval(1)
	d := a.V.Dec()
	n := a.V.Num()
	f64, f32 := d.Float64(), d.Float32()
	switch n.Class {
	case ref.NaN:
		if !math.IsNaN(f64) || f32 == f32 {
			return violf("Float64/Float32(NaN) = %v, %v", f64, f32)
		}
		st.Class("nan")
		return nil
	case ref.Inf:
		s := 1
		if n.Neg {
			s = -1
		}
		if !math.IsInf(f64, s) || !math.IsInf(float64(f32), s) {
			return violf("Float64/Float32(%s) = %v, %v", n, f64, f32)
		}
		st.Class("inf")
		return nil
	}
	if math.Signbit(f64) != n.Neg || math.Signbit(float64(f32)) != n.Neg {
		return violf("Float64/Float32(%s) = %v, %v: wrong sign", n, f64, f32)
	}
	if n.IsZero() {
		if f64 != 0 || f32 != 0 {
			return violf("Float64/Float32(%s) = %v, %v", n, f64, f32)
		}
		st.Class("zero")
		return nil
	}
	lead := n.Exp + ref.DecLen(n.Coef) // |v| in [10^(lead-1), 10^lead)
	switch {
	case lead-1 > 310:
		if !math.IsInf(f64, 0) || !math.IsInf(float64(f32), 0) {
			return violf("Float64/Float32(%s) = %v, %v, want Inf", n, f64, f32)
		}
		st.Class("beyond-float64-range")
		return nil
	case lead < -330:
		if f64 != 0 || f32 != 0 {
			return violf("Float64/Float32(%s) = %v, %v, want 0", n, f64, f32)
		}
		st.Class("below-float64-range")
		return nil
	}
	v := ref.XOf(n).Rat()
	lo, hi := bracket64(v)
	if !(f64 == lo || f64 == hi) {
		return violf("Float64(%s) = %v, not adjacent to the exact value (neighbours %v, %v)", n, f64, lo, hi)
	}
	av := new(big.Rat).Abs(v)
	if math.IsInf(f64, 0) && lo == hi && !math.IsInf(lo, 0) {
		return violf("Float64(%s) = %v although the value is representable", n, f64)
	}
	if av.Cmp(two1024) >= 0 && !math.IsInf(f64, 0) {
		return violf("Float64(%s) = %v, want Inf", n, f64)
	}
	klass := "inexact"
	if lo == hi {
		klass = "representable"
	}
	// float32
	if lead-1 > 40 {
		if !math.IsInf(float64(f32), 0) {
			return violf("Float32(%s) = %v, want Inf", n, f32)
		}
	} else if lead < -50 {
		if f32 != 0 {
			return violf("Float32(%s) = %v, want 0", n, f32)
		}
	} else {
		lo32, hi32 := bracket32(v)
		if !(f32 == lo32 || f32 == hi32) {
			return violf("Float32(%s) = %v, not adjacent to the exact value (neighbours %v, %v)", n, f32, lo32, hi32)
		}
		if av.Cmp(two128) >= 0 && !math.IsInf(float64(f32), 0) {
			return violf("Float32(%s) = %v, want Inf", n, f32)
		}
		if lo32 == hi32 {
			st.Class("float32-representable")
		}
	}
	switch {
	case math.IsInf(hi, 0) || math.IsInf(lo, 0):
		st.Class("float64-overflow-edge")
	case math.Abs(hi) < 2.3e-308:
		st.Class("float64-subnormal/" + klass)
	default:
		st.Class("float64-normal/" + klass)
	}
	st.NT(hashWords(a.V.Hi, a.V.Lo), func() any {
		return map[string]any{"d": n.String(), "float64": fstr(f64), "float32": fstr(float64(f32)), "class": klass}
	})
	return nil
})

// ---- big.Float -----------------------------------------------------------------

type c09BigArgs struct {
	V    D
	Prec uint // 0: nil receiver
}

var c09big = Register("C09", "C09.bigfloat", func(a c09BigArgs) *Violation {
	st := S("C09", "bigfloat")
	st.Eval(1)
	d := a.V.Dec()
	n := a.V.Num()
	if n.Class == ref.NaN {
		return nil // documented panic: C20
	}
	var recv *big.Float
	wantPrec := uint(128)
	recvMode := big.ToNearestEven
	if a.Prec > 0 && a.Prec != 1000 {
		recv = new(big.Float).SetPrec(a.Prec).SetInt64(12345) // pre-loaded receiver
		wantPrec = a.Prec
		// the destination's own rounding mode (a pure function of the case): storing into a big.Float rounds the
		// way that big.Float says, for either sign
		recvMode = []big.RoundingMode{big.ToNearestEven, big.ToNearestAway, big.ToZero, big.AwayFromZero, big.ToNegativeInf, big.ToPositiveInf}[hashWords(a.V.Hi, a.V.Lo, uint64(a.Prec))%6]
		recv.SetMode(recvMode)
	} else if a.Prec == 1000 {
		recv = new(big.Float) // a zero-value receiver has precision 0: the documented default of 128 bits applies
	}
	f := d.Float(recv)
	if recv != nil && f != recv {
		return violf("Float(%s) did not return the supplied receiver", n)
	}
	if n.Class == ref.Inf {
		if !f.IsInf() || f.Signbit() != n.Neg {
			return violf("Float(%s) = %v", n, f)
		}
		st.Class("inf")
		return nil
	}
	if f.Prec() != wantPrec {
		return violf("Float(%s) with receiver precision %d returns precision %d, want %d", n, a.Prec, f.Prec(), wantPrec)
	}
	if n.IsZero() {
		if f.Sign() != 0 || f.Signbit() != n.Neg {
			return violf("Float(%s) = %v", n, f)
		}
		st.Class("zero")
		return nil
	}
	if f.IsInf() || f.Signbit() != n.Neg {
		return violf("Float(%s) = %v", n, f)
	}
	v := ref.XOf(n).Rat()
	fr, _ := f.Rat(nil)
	// relative error <= 2^(1-prec):  |fr - v| * 2^(prec-1) <= |v|
	diff := new(big.Rat).Sub(fr, v)
	diff.Abs(diff)
	diff.Mul(diff, new(big.Rat).SetInt(new(big.Int).Lsh(ref.One, wantPrec-1)))
	if diff.Cmp(new(big.Rat).Abs(v)) > 0 {
		return violf("Float(%s) at precision %d = %s: relative error exceeds 2^(1-prec)", n, wantPrec, f.Text('g', 50))
	}
	if wantPrec >= 114 {
		want := new(big.Float).SetPrec(wantPrec).SetMode(recvMode).SetRat(v)
		if want.Cmp(f) != 0 {
			return violf("Float(%s) at precision %d into a destination with mode %v = %s, correctly rounded value is %s", n, wantPrec, recvMode, f.Text('g', 60), want.Text('g', 60))
		}
		if f.Mode() != recvMode {
			return violf("Float(%s) changed the destination's rounding mode from %v to %v", n, recvMode, f.Mode())
		}
		st.Class("prec>=114")
	} else {
		st.Class("prec<114")
	}
	if fr.Cmp(v) != 0 {
		st.NT(hashWords(a.V.Hi, a.V.Lo, uint64(a.Prec)), func() any {
			return map[string]any{"d": n.String(), "prec": a.Prec}
		})
	}
	return nil
})

type c09FromBigArgs struct {
	Mant string // decimal integer mantissa (may be negative)
	Exp  int    // binary exponent
	Prec uint
	Kind int // 0 finite, 1 +Inf, 2 -Inf, 3 +0, 4 -0
}

var c09frombig = Register("C09", "C09.frombigfloat", func(a c09FromBigArgs) *Violation {
	st := S("C09", "frombigfloat")
	st.Eval(1)
	switch a.Kind {
	case 1, 2:
		g := ref.Decode(d128.FromFloat(new(big.Float).SetInf(a.Kind == 2)))
		if g.Class != ref.Inf || g.Neg != (a.Kind == 2) {
			return violf("FromFloat(Inf kind %d) = %s", a.Kind, g)
		}
		return nil
	case 3, 4:
		z := new(big.Float)
		if a.Kind == 4 {
			z.Neg(z)
		}
		g := ref.Decode(d128.FromFloat(z))
		if !g.IsZero() || g.Neg != (a.Kind == 4) {
			return violf("FromFloat(zero kind %d) = %s", a.Kind, g)
		}
		return nil
	}
	m, ok := new(big.Int).SetString(a.Mant, 10)
	if !ok || m.Sign() == 0 {
		return nil
	}
	prec := a.Prec
	if prec < uint(m.BitLen()) {
		prec = uint(m.BitLen())
	}
	f := new(big.Float).SetPrec(prec).SetInt(m)
	f.SetMantExp(f, a.Exp)
	keep := new(big.Float).Copy(f)
	primedUnderAnotherMode(hashString(a.Mant)+uint64(a.Exp), func() { _ = d128.FromFloat(f) })
	g := ref.Decode(d128.FromFloat(f))
	if f.Cmp(keep) != 0 {
		return violf("FromFloat modified its argument")
	}
	x := ref.X{Neg: m.Sign() < 0, Num: new(big.Int).Abs(m), Den: ref.One}
	if a.Exp >= 0 {
		x.Num = new(big.Int).Lsh(x.Num, uint(a.Exp))
	} else {
		x.Den = new(big.Int).Lsh(ref.One, uint(-a.Exp))
	}
	lo, hi := ref.RoundX(x, d128.ToZero, true), ref.RoundX(x, d128.AwayFromZero, true)
	if lo.Class == ref.Inf || lo.IsZero() || ref.Quantum(x) == ref.Emin {
		if !ref.SameVal(g, lo) && !ref.SameVal(g, hi) {
			return violf("FromFloat(%s * 2^%d) = %s, exact value lies between %s and %s", abbr(a.Mant), a.Exp, g, lo, hi)
		}
		st.Class("edge-of-range")
	} else {
		if g.Class != ref.Finite || g.Neg != x.Neg || g.IsZero() {
			if !(g.Class == ref.Inf && hi.Class == ref.Inf && g.Neg == x.Neg) {
				return violf("FromFloat(%s * 2^%d) = %s", abbr(a.Mant), a.Exp, g)
			}
		} else if v := relErrWithin(g, x, 2, 33); v != "" {
			return violf("FromFloat(%s * 2^%d) = %s: %s", abbr(a.Mant), a.Exp, g, v)
		}
		st.Class("in-range")
		if a.Exp < -20000 || a.Exp > 20000 {
			st.Class("in-range/|binexp|>20000")
		}
	}
	st.NT(hashString(a.Mant)^uint64(int64(a.Exp)), func() any {
		return map[string]any{"mant": abbr(a.Mant), "binexp": a.Exp, "prec": prec}
	})
	return nil
})

// ---- generators ------------------------------------------------------------------

func genFloat64Bits(t *rapid.T) uint64 {
	switch ir(t, 0, 11, "f64Kind") {
	case 10, 11:
		// integer-valued floats whose exact expansion has 34..40 digits: the multi-digit arms of the 256-bit
		// reducer (strip four, three, two digits at once, each with its own sticky rule) are decided by the last
		// few digits of an integer that is a multiple of a large power of two, and the binary exponents
		// -120..-1 with short mantissas, whose expansions end in ...5 (exact ties at the 34th/35th digit)
		if ir(t, 0, 3, "fraction") == 0 {
			m := uint64(ir(t, 1, 1<<22, "m")) | 1
			return math.Float64bits(math.Ldexp(float64(m), -ir(t, 90, 125, "k"))) | uint64(ir(t, 0, 1, "s"))<<63
		}
		e := uint64(1023 + ir(t, 110, 133, "binexp"))
		return uint64(ir(t, 0, 1, "s"))<<63 | e<<52 | u64(t, "mant")&(1<<52-1)
	case 0, 1, 2:
		return u64(t, "bits")
	case 3:
		// subnormals
		return u64(t, "sub")&(1<<52-1) | uint64(ir(t, 0, 1, "s"))<<63
	case 4:
		// 2^k and 2^k(1+2^-52) for every binary exponent
		k := ir(t, -1074, 1023, "k")
		f := math.Ldexp(1, k)
		b := math.Float64bits(f)
		if rapid.Bool().Draw(t, "plusUlp") {
			b++
		}
		return b | uint64(ir(t, 0, 1, "s"))<<63
	case 5:
		// small integer mantissa times 2^e
		m := float64(ir(t, 1, 1<<20, "m"))
		return math.Float64bits(math.Ldexp(m, ir(t, -1090, 1000, "e")))
	case 6:
		// decimal-looking values
		v := float64(ir(t, 1, 99999, "digits")) * math.Pow(10, float64(ir(t, -320, 300, "p")))
		return math.Float64bits(v)
	case 7:
		return []uint64{0, 1 << 63, 1, 0x7fefffffffffffff, 0x7ff0000000000000, 0xfff0000000000000, 0x7ff8000000000001, 0x0010000000000000, 0x000fffffffffffff, 0x3ff0000000000000}[ir(t, 0, 9, "special")]
	case 8:
		// top binades
		return uint64(ir(t, 0x7f0, 0x7fe, "exp"))<<52 | u64(t, "mant")&(1<<52-1)
	}
	// all-ones / sparse mantissas
	e := uint64(ir(t, 0, 0x7fe, "exp"))
	mant := []uint64{1<<52 - 1, 1, 1 << 51, 1<<52 - 2, 0x5555555555555}[ir(t, 0, 4, "mant")]
	return e<<52 | mant
}

func genFloat32Bits(t *rapid.T) uint32 {
	switch ir(t, 0, 4, "f32Kind") {
	case 4:
		// the top binades of float32 (2^110..2^127): 34..39 digit integers, as above
		return uint32(ir(t, 0, 1, "s"))<<31 | uint32(127+ir(t, 108, 127, "binexp"))<<23 | u32(t, "mant")&(1<<23-1)
	case 0:
		return u32(t, "sub") & (1<<23 - 1)
	case 1:
		return []uint32{0, 1 << 31, 1, 0x7f7fffff, 0x7f800000, 0xff800000, 0x7fc00000, 0x00800000}[ir(t, 0, 7, "special")]
	}
	return u32(t, "bits")
}

// genForFloat draws Decimals for the Decimal->float direction.
func genForFloat(t *rapid.T) D {
	switch ir(t, 0, 9, "dKind") {
	case 0:
		return genAny(t)
	case 1, 2, 3:
		// dense where float64 lives: leading digit exponent in -345..+312
		c := genCoef(t)
		if c.Sign() == 0 {
			c = bi(1)
		}
		lead := ir(t, -345, 312, "lead")
		return DFin(genSign(t), c, clampExp(lead-ref.DecLen(c)))
	case 4, 5:
		// near a midpoint between adjacent floats, or near a float: approach the exact
		// binary value within one unit of the 34th digit from either side
		f := math.Float64frombits(genFloat64Bits(t))
		if math.IsNaN(f) || math.IsInf(f, 0) || f == 0 {
			f = 1.5
		}
		x := exactOfFloat64(f)
		if rapid.Bool().Draw(t, "midpoint") {
			nf := math.Nextafter(f, math.Inf(1))
			if !math.IsInf(nf, 0) {
				y := exactOfFloat64(nf)
				// (x+y)/2
				num := new(big.Int).Add(new(big.Int).Mul(x.Num, y.Den), new(big.Int).Mul(y.Num, x.Den))
				den := new(big.Int).Mul(x.Den, y.Den)
				den.Lsh(den, 1)
				x = ref.X{Neg: x.Neg, Num: num, Den: den}
			}
		}
		m := []d128.RoundingMode{d128.ToZero, d128.AwayFromZero, d128.ToNearestEven}[ir(t, 0, 2, "side")]
		r := ref.RoundX(x, m, false)
		if r.Class != ref.Finite {
			return genFinite(t)
		}
		return DFin(r.Neg, r.Coef, r.Exp)
	case 6:
		// exactly representable: k * 2^-j, 2^j
		j := ir(t, 0, 40, "j")
		k := bi(int64(ir(t, 1, 1<<20, "k")))
		c := new(big.Int).Mul(k, pow(5, j)) // k*5^j * 10^-j = k * 2^-j
		if c.Cmp(ref.Cmax) > 0 {
			return DFin(genSign(t), new(big.Int).Lsh(ref.One, uint(ir(t, 0, 112, "p2"))), 0)
		}
		return DFin(genSign(t), c, -j)
	case 7:
		// float32 range edges
		c := genCoef(t)
		if c.Sign() == 0 {
			c = bi(1)
		}
		lead := genNear(t, 3, 39, -45, -38, 0)
		return DFin(genSign(t), c, clampExp(lead-ref.DecLen(c)))
	case 8:
		// float64 range edges
		c := genCoef(t)
		if c.Sign() == 0 {
			c = bi(1)
		}
		lead := genNear(t, 3, 309, -323, -308, -358+35)
		return DFin(genSign(t), c, clampExp(lead-ref.DecLen(c)))
	}
	return genFinite(t)
}

func TestC09_FromFloat(t *testing.T) {
	runRapid(t, 60000, 3000000, func(t *rapid.T) {
		c09from.Run(t, c09FromArgs{Bits64: genFloat64Bits(t), Bits32: genFloat32Bits(t)})
	})
}

func TestC09_ToFloat(t *testing.T) {
	runRapid(t, 60000, 3000000, func(t *rapid.T) {
		c09to.Run(t, c09ToArgs{V: genForFloat(t)})
	})
}

func TestC09_BigFloat(t *testing.T) {
	runRapid(t, 15000, 600000, func(t *rapid.T) {
		var v D
		if ir(t, 0, 3, "full") == 0 {
			v = genAny(t)
		} else {
			v = DFin(genSign(t), genCoef(t), ir(t, -420, 420, "e"))
		}
		var prec uint
		switch ir(t, 0, 4, "precKind") {
		case 0:
			prec = []uint{0, 1000}[ir(t, 0, 1, "nilOrZeroValue")]
		case 1:
			prec = uint(ir(t, 1, 64, "p"))
		case 2:
			prec = uint(ir(t, 100, 130, "p"))
		default:
			prec = uint(ir(t, 1, 400, "p"))
		}
		c09big.Run(t, c09BigArgs{V: v, Prec: prec})
	})
}

func TestC09_FromBigFloat(t *testing.T) {
	runRapid(t, 15000, 600000, func(t *rapid.T) {
		a := c09FromBigArgs{}
		if ir(t, 0, 30, "specialKind") == 0 {
			a.Kind = ir(t, 1, 4, "kind")
			c09frombig.Run(t, a)
			return
		}
		bitsN := ir(t, 1, 600, "mantBits")
		if rapid.Bool().Draw(t, "short") {
			bitsN = ir(t, 1, 64, "mantBitsShort")
		}
		bs := ubytes(t, (bitsN+7)/8, "mant")
		m := new(big.Int).SetBytes(bs)
		if m.Sign() == 0 {
			m = big.NewInt(1)
		}
		if rapid.Bool().Draw(t, "neg") {
			m.Neg(m)
		}
		a.Mant = m.String()
		switch ir(t, 0, 4, "expKind") {
		case 0:
			a.Exp = ir(t, -200, 200, "e")
		case 1:
			a.Exp = genNear(t, 60, -20516, -20414, 20413, 20416) - m.BitLen()
		default:
			a.Exp = ir(t, -21500, 21500, "e")
		}
		a.Prec = uint(ir(t, 0, 700, "prec"))
		c09frombig.Run(t, a)
	})
}

// TestC09_Float32Sweep checks FromFloat32(f).Float32() == f on float32 bit
// patterns: all 2^32 in the thorough tier (split across shards), a strided
// sample in the quick tier.
func TestC09_Float32Sweep(t *testing.T) {
	st := S("C09", "float32-roundtrip-sweep")
	stride := uint64(20011) // quick: ~214k patterns
	if cfg.tier == "thorough" {
		stride = 1
	}
	lo := uint64(cfg.shard) * (1 << 32) / uint64(cfg.shards)
	hi := uint64(cfg.shard+1) * (1 << 32) / uint64(cfg.shards)
	off := splitmix(cfg.seed) % stride
	var n, nt int64
	for b := lo + off; b < hi; b += stride {
		f := math.Float32frombits(uint32(b))
		n++
		if f != f {
			if !d128.FromFloat32(f).IsNaN() {
				t.Fatalf("FromFloat32(NaN bits %08x) is not NaN", uint32(b))
			}
			continue
		}
		d := d128.FromFloat32(f)
		back := d.Float32()
		if math.Float32bits(back) != uint32(b) {
			v := violf("FromFloat32(%v (bits %08x)).Float32() = %v (bits %08x)", f, uint32(b), back, math.Float32bits(back))
			c09from.writeFail(c09FromArgs{Bits64: math.Float64bits(float64(f)), Bits32: uint32(b)}, v)
			t.Fatal(v.Msg)
		}
		nt++
		if nt%65521 == 1 {
			st.NT(hashWords(b), func() any { return map[string]any{"float32_bits": uint32(b), "value": fstr(float64(f))} })
		}
	}
	st.Eval(int(n))
	st.ClassN("patterns-round-tripped", nt)
	if stride == 1 {
		st.SetExhaustive()
		st.Note("enumerated", "every float32 bit pattern in this shard's slice of [0, 2^32)")
	}
}
