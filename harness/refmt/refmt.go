// Package refmt is a reference implementation of the layout rules that package
// fmt and strconv (go1.23) apply to a float64 for the verbs e E f F g G, driven
// by exact decimal digits instead of a binary value: strconv's %e/%f/%g layout
// (fmtE, fmtF, the eprec rule, exponents of at least two digits), strconv's
// decimal.Round (half-to-even on exact digits, including the empty-prefix case)
// and fmt.fmtFloat's post-processing ('#', sign and space, width, '0' and '-'
// padding with the sign kept in front of the zeros). The harness validates it
// against the installed fmt.Sprintf on float64 values whose decimal expansion
// is exact before trusting it on 35-digit values float64 cannot hold.
package refmt

import "strconv"

type Spec struct {
	Plus, Minus, Sharp, Space, Zero bool
	Wid                             int
	HasWid                          bool
	Prec                            int
	HasPrec                         bool
	Verb                            byte // e E f F g G
}

func (s Spec) String() string {
	r := ""
	if s.Plus {
		r += "+"
	}
	if s.Minus {
		r += "-"
	}
	if s.Sharp {
		r += "#"
	}
	if s.Space {
		r += " "
	}
	if s.Zero {
		r += "0"
	}
	if s.HasWid {
		r += strconv.Itoa(s.Wid)
	}
	if s.HasPrec {
		r += "." + strconv.Itoa(s.Prec)
	}
	return r + string(s.Verb)
}

// dec mirrors strconv's decimal: value = 0.d[0]d[1]... * 10^dp
type dec struct {
	d  []byte
	dp int
}

func (a *dec) nd() int { return len(a.d) }

// round to nd digits, half-even on exact digits (strconv decimal.Round with trunc=false)
func (a *dec) round(nd int) {
	if nd < 0 || nd >= len(a.d) {
		return
	}
	up := false
	if a.d[nd] == '5' && nd+1 == len(a.d) {
		up = nd > 0 && (a.d[nd-1]-'0')%2 != 0
	} else {
		up = a.d[nd] >= '5'
	}
	if up {
		// round up
		for i := nd - 1; i >= 0; i-- {
			if a.d[i] < '9' {
				a.d[i]++
				a.d = a.d[:i+1]
				return
			}
		}
		a.d = []byte{'1'}
		a.dp++
		return
	}
	a.d = a.d[:nd]
	// trim trailing zeros
	for len(a.d) > 0 && a.d[len(a.d)-1] == '0' {
		a.d = a.d[:len(a.d)-1]
	}
	if len(a.d) == 0 {
		a.dp = 0
	}
}

func fmtE(dst []byte, neg bool, a *dec, prec int, e byte) []byte {
	if neg {
		dst = append(dst, '-')
	}
	ch := byte('0')
	if a.nd() != 0 {
		ch = a.d[0]
	}
	dst = append(dst, ch)
	if prec > 0 {
		dst = append(dst, '.')
		i := 1
		m := a.nd()
		if prec+1 < m {
			m = prec + 1
		}
		if i < m {
			dst = append(dst, a.d[i:m]...)
			i = m
		}
		for ; i <= prec; i++ {
			dst = append(dst, '0')
		}
	}
	dst = append(dst, e)
	exp := a.dp - 1
	if a.nd() == 0 {
		exp = 0
	}
	if exp < 0 {
		dst = append(dst, '-')
		exp = -exp
	} else {
		dst = append(dst, '+')
	}
	if exp < 10 {
		dst = append(dst, '0', byte(exp)+'0')
	} else {
		dst = strconv.AppendInt(dst, int64(exp), 10)
	}
	return dst
}

func fmtF(dst []byte, neg bool, a *dec, prec int) []byte {
	if neg {
		dst = append(dst, '-')
	}
	if a.dp > 0 {
		m := a.nd()
		if a.dp < m {
			m = a.dp
		}
		dst = append(dst, a.d[:m]...)
		for ; m < a.dp; m++ {
			dst = append(dst, '0')
		}
	} else {
		dst = append(dst, '0')
	}
	if prec > 0 {
		dst = append(dst, '.')
		for i := 0; i < prec; i++ {
			ch := byte('0')
			if j := a.dp + i; 0 <= j && j < a.nd() {
				ch = a.d[j]
			}
			dst = append(dst, ch)
		}
	}
	return dst
}

// appendFloat mirrors strconv.AppendFloat for fmt in e,E,f,g,G with exact digits. prec<0 = shortest (= all exact digits).
func appendFloat(dst []byte, neg bool, digs string, dp int, fm byte, prec int) []byte {
	a := &dec{d: []byte(digs), dp: dp}
	if len(digs) == 0 {
		a.dp = 0
	}
	shortest := prec < 0
	if shortest {
		switch fm {
		case 'e', 'E':
			prec = a.nd() - 1
		case 'f':
			prec = max(a.nd()-a.dp, 0)
		case 'g', 'G':
			prec = a.nd()
		}
	} else {
		switch fm {
		case 'e', 'E':
			a.round(prec + 1)
		case 'f':
			a.round(a.dp + prec)
		case 'g', 'G':
			if prec == 0 {
				prec = 1
			}
			a.round(prec)
		}
	}
	switch fm {
	case 'e', 'E':
		if shortest && prec < 0 {
			prec = 0
		}
		return fmtE(dst, neg, a, prec, fm)
	case 'f':
		return fmtF(dst, neg, a, max(prec, 0))
	case 'g', 'G':
		eprec := prec
		if eprec > a.nd() && a.nd() >= a.dp {
			eprec = a.nd()
		}
		if shortest {
			eprec = 6
		}
		exp := a.dp - 1
		if a.nd() == 0 {
			exp = -1 // strconv: zero has dp=0 => exp=-1
		}
		if exp < -4 || exp >= eprec {
			if prec > a.nd() {
				prec = a.nd()
			}
			return fmtE(dst, neg, a, prec-1, fm+'e'-'g')
		}
		if prec > a.dp {
			prec = a.nd()
		}
		return fmtF(dst, neg, a, max(prec-a.dp, 0))
	}
	return append(dst, '%', fm)
}

// Format mirrors fmt's fmtFloat (go1.23) for finite values.
func Format(neg bool, digs string, dp int, s Spec) string {
	verb := s.Verb
	sv := verb
	if sv == 'F' {
		sv = 'f'
	}
	prec := -1
	switch verb {
	case 'e', 'E', 'f', 'F':
		prec = 6
	}
	if s.HasPrec {
		prec = s.Prec
	}
	num := appendFloat([]byte{'+'}[:1], neg, digs, dp, sv, prec)
	if num[1] == '-' || num[1] == '+' {
		num = num[1:]
	} else {
		num[0] = '+'
	}
	if s.Space && num[0] == '+' && !s.Plus {
		num[0] = ' '
	}
	if s.Sharp {
		digits := 0
		switch verb {
		case 'g', 'G':
			digits = prec
			if digits == -1 {
				digits = 6
			}
		}
		var tail []byte
		hasDP := false
		sawNZ := false
		for i := 1; i < len(num); i++ {
			switch num[i] {
			case '.':
				hasDP = true
			case 'e', 'E':
				tail = append(tail, num[i:]...)
				num = num[:i]
			default:
				if num[i] != '0' {
					sawNZ = true
				}
				if sawNZ {
					digits--
				}
			}
		}
		if !hasDP {
			if len(num) == 2 && num[1] == '0' {
				digits--
			}
			num = append(num, '.')
		}
		for digits > 0 {
			num = append(num, '0')
			digits--
		}
		num = append(num, tail...)
	}
	pad := func(b []byte) string {
		if !s.HasWid || s.Wid <= len(b) {
			return string(b)
		}
		n := s.Wid - len(b)
		p := make([]byte, n)
		pb := byte(' ')
		if s.Zero && !s.Minus {
			pb = '0'
		}
		for i := range p {
			p[i] = pb
		}
		if s.Minus {
			return string(b) + string(p)
		}
		return string(p) + string(b)
	}
	if s.Plus || num[0] != '+' {
		if s.Zero && !s.Minus && s.HasWid && s.Wid > len(num) {
			n := s.Wid - len(num)
			z := make([]byte, n)
			for i := range z {
				z[i] = '0'
			}
			return string(num[0]) + string(z) + string(num[1:])
		}
		return pad(num)
	}
	return pad(num[1:])
}
