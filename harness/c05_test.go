package harness

import (
	"errors"
	"fmt"
	"math/big"
	"strconv"
	"strings"
	"testing"

	d128 "github.com/woodsbury/decimal128"
	"pgregory.net/rapid"

	"verif/harness/ref"
)

// C05 — parsing returns the correctly rounded value of every well-formed literal.

type c05Args struct {
	S string
}

func mustParsePanics(s string) (panicked bool, d d128.Decimal) {
	defer func() {
		if recover() != nil {
			panicked = true
		}
	}()
	d = d128.MustParse(s)
	return
}

var c05 = Register("C05", "C05.parse", func(a c05Args) *Violation {
	st := S("C05", "parse")
	st.Eval(1)
	s := a.S
	l := classifyLiteral(s)
	show := abbr(strconv.Quote(s))
	switch l.Class {
	case litUnclaimed:
		// the statement does not settle these; only "no panic" applies
		_, _ = d128.Parse(s)
		u := prior(hashString(s))
		_ = u.UnmarshalText([]byte(s))
		st.Class("unclaimed-form")
		return nil
	case litInvalid:
		d, err := d128.Parse(s)
		if err == nil {
			return violf("Parse(%s) accepted a string outside the documented syntax and returned %s", show, ref.Decode(d))
		}
		if !errors.Is(err, strconv.ErrSyntax) {
			return violf("Parse(%s): error %q does not match strconv.ErrSyntax", show, err)
		}
		u := prior(hashString(s))
		if err := u.UnmarshalText([]byte(s)); err == nil || !errors.Is(err, strconv.ErrSyntax) {
			return violf("UnmarshalText(%s): error %v does not match strconv.ErrSyntax", show, err)
		}
		if p, d := mustParsePanics(s); !p {
			return violf("MustParse(%s) did not panic (returned %s)", show, ref.Decode(d))
		}
		st.Class("invalid")
		st.NT(hashString(s), func() any { return map[string]any{"invalid": abbr(s)} })
		return nil
	}
	// valid literal: under every value of DefaultRoundingMode; a literal of more than 50 000 characters costs
	// milliseconds per entry point and mode, so it is checked under nearest-even and one other mode picked by the
	// case (all modes still occur, spread over the cases)
	modes := loopModes()
	if len(s) > 50000 && walkMode < 0 {
		modes = []d128.RoundingMode{d128.ToNearestEven, ref.Modes[1+hashString(s[:64])%5]}
	}
	for _, m := range modes {
		var d d128.Decimal
		var err error
		u := prior(hashString(s) + uint64(m))
		var uerr error
		withDefaultMode(m, func() {
			d, err = d128.Parse(s)
			uerr = u.UnmarshalText([]byte(s))
		})
		g := ref.Decode(d)
		switch l.Kind {
		case ref.NaN:
			if err != nil || g.Class != ref.NaN || uerr != nil || !u.IsNaN() {
				return violf("Parse/UnmarshalText(%s) = %s, %v / %v", show, g, err, uerr)
			}
			continue
		case ref.Inf:
			if err != nil || g.Class != ref.Inf || g.Neg != l.Neg || uerr != nil || !ref.SameVal(ref.Decode(u), g) {
				return violf("Parse/UnmarshalText(%s) = %s, %v / %v", show, g, err, uerr)
			}
			continue
		}
		want, overflow, alt := l.expected(m)
		if overflow {
			if g.Class != ref.Inf || g.Neg != l.Neg || err == nil || !errors.Is(err, strconv.ErrRange) {
				return violf("Parse(%s) mode %v = %s, err %v; want %s and an error matching strconv.ErrRange", show, m, g, err, want)
			}
			if uerr == nil || !errors.Is(uerr, strconv.ErrRange) {
				return violf("UnmarshalText(%s) mode %v: err %v, want an error matching strconv.ErrRange", show, m, uerr)
			}
			continue
		}
		if err != nil {
			return violf("Parse(%s) mode %v: unexpected error %v (want %s)", show, m, err, want)
		}
		if !ref.SameVal(g, want) && !(alt != nil && ref.SameVal(g, *alt)) {
			return violf("Parse(%s) mode %v = %s, want %s", show, m, g, want)
		}
		if uerr != nil || u != d {
			return violf("UnmarshalText(%s) mode %v = %s, %v; Parse gives %s", show, m, ref.Decode(u), uerr, g)
		}
		var mp bool
		var md d128.Decimal
		withDefaultMode(m, func() { mp, md = mustParsePanics(s) })
		if mp || md != d {
			return violf("MustParse(%s) under DefaultRoundingMode=%v panicked=%v value %s; Parse gives %s", show, m, mp, ref.Decode(md), g)
		}
		// Scan (fmt.Sscan) for the same numerals, under the same DefaultRoundingMode
		var sv *Violation
		withDefaultMode(m, func() { sv = checkScan(s, l, d, m) })
		if sv != nil {
			return sv
		}
	}
	// a caller that reuses its buffer (the bufio.Scanner pattern): the same slice holding first this literal, then
	// another one of the same length, then this one again must give three independent results
	if v := reusedBuffer(s, l, st); v != nil {
		return v
	}
	// classification
	klass := "short"
	nt := false
	if l.Kind != ref.Finite {
		klass = "nan-inf"
	} else {
		sig := len(strings.TrimRight(l.Digits, "0"))
		lead := int64(len(l.Digits)) + l.Exp
		switch {
		case l.Digits == "":
			klass = "zero"
		case lead-1 >= 6144:
			klass = "overflow-window"
			nt = true
		case lead <= -6140:
			klass = "subnormal-flush-window"
			nt = true
		case sig > 35:
			klass = ">35-significant-digits"
			nt = true
			_, _, _ = l.expected(d128.ToNearestEven)
		case l.Exp != 0 && l.NDigits > 0 && l.HasSep:
			klass = "with-separators"
			nt = true
		}
		if sig > 35 {
			st.Class("rounded")
			if tieLiteral(l) {
				st.Class("tie-at-rounding-position")
			}
		}
		if l.NDigits > 32767 {
			st.Class(">32767-digits")
		}
		if l.HasSep {
			st.Class("has-separator")
			nt = true
		}
	}
	st.Class(klass)
	if nt {
		st.NT(hashString(s), func() any { return map[string]any{"literal": abbr(s), "class": klass} })
	}
	return nil
})

// tieLiteral: in-range literal whose digits beyond the 34/35th are exactly 5000...
func tieLiteral(l literal) bool {
	d := strings.TrimRight(l.Digits, "0")
	return len(d) >= 35 && len(d) <= 36 && d[len(d)-1] == '5'
}

func checkScan(s string, l literal, parsed d128.Decimal, m d128.RoundingMode) *Violation {
	if l.Kind == ref.Inf && len(strings.TrimLeft(s, "+-")) != 3 {
		return nil // Scan is stated for NaN and Inf, not "Infinity"
	}
	if l.Kind == ref.Finite && ref.Decode(parsed).Class == ref.Inf {
		return nil
	}
	d := prior(hashString(s) + 7*uint64(m))
	n, err := fmt.Sscan(s, &d)
	if err != nil || n != 1 {
		return violf("fmt.Sscan(%s) under DefaultRoundingMode=%v: n=%d err=%v", abbr(strconv.Quote(s)), m, n, err)
	}
	g, w := ref.Decode(d), ref.Decode(parsed)
	if !ref.SameVal(g, w) {
		return violf("fmt.Sscan(%s) under DefaultRoundingMode=%v = %s, Parse gives %s", abbr(strconv.Quote(s)), m, g, w)
	}
	// the same through Sscanf with one of the verbs Scan documents (picked by the case, so that all seven occur)
	verb := "eEfFgGv"[hashString(s)%7]
	d2 := prior(hashString(s) + 11*uint64(m))
	n, err = fmt.Sscanf(s, "%"+string(verb), &d2)
	if err != nil || n != 1 {
		return violf("fmt.Sscanf(%s, %%%c) under DefaultRoundingMode=%v: n=%d err=%v", abbr(strconv.Quote(s)), verb, m, n, err)
	}
	if g2 := ref.Decode(d2); !ref.SameVal(g2, w) {
		return violf("fmt.Sscanf(%s, %%%c) under DefaultRoundingMode=%v = %s, Parse gives %s", abbr(strconv.Quote(s)), verb, m, g2, w)
	}
	return nil
}

// ---- generators -----------------------------------------------------------------

func randCase(t *rapid.T, s string) string {
	b := []byte(s)
	w := u64(t, "case")
	for i := range b {
		if w>>uint(i%64)&1 == 1 {
			b[i] = byte(strings.ToUpper(string(b[i]))[0])
		}
	}
	return string(b)
}

func digitString(t *rapid.T, n int) string {
	// n digits, run-structured like genDigits but may start with zero
	var b strings.Builder
	for b.Len() < n {
		left := n - b.Len()
		kind := ir(t, 0, 6, "dsKind")
		run := ir(t, 1, min(left, 40), "dsRun")
		switch kind {
		case 0, 1, 2:
			b.WriteString(strings.Repeat(string("095"[kind]), run))
		case 3:
			b.WriteString(strings.Repeat(string(byte('0'+ir(t, 0, 9, "dsDigit"))), run))
		default:
			for i := 0; i < run; i += 18 {
				chunk := fmt.Sprintf("%018d", u64(t, "dsRand")%1_000_000_000_000_000_000)
				b.WriteString(chunk[:min(18, run-i)])
			}
		}
	}
	return b.String()[:n]
}

func insertSeps(t *rapid.T, digits string) string {
	if len(digits) < 2 {
		return digits
	}
	var b strings.Builder
	w := u64(t, "seps")
	for i := 0; i < len(digits); i++ {
		b.WriteByte(digits[i])
		if i < len(digits)-1 && (w>>uint(i%64))&7 == 0 {
			b.WriteByte('_')
		}
	}
	return b.String()
}

// genValidLiteral draws a literal in the documented syntax.
func genValidLiteral(t *rapid.T, thorough bool) string {
	sign := []string{"", "", "+", "-"}[ir(t, 0, 3, "sign")]
	kind := ir(t, 0, 15, "litKind")
	if kind == 0 {
		w := []string{"nan", "inf", "infinity"}[ir(t, 0, 2, "word")]
		if w == "nan" {
			sign = ""
		}
		return sign + randCase(t, w)
	}
	var intD, fracD string
	hasDot := false
	switch {
	case kind <= 3:
		// tie / near-tie at the 34th/35th digit, possibly followed by a long tail
		cr := fullCoef(t).String()
		tail := []string{"5", "50", "5" + strings.Repeat("0", ir(t, 1, 60, "z")), "49" + strings.Repeat("9", ir(t, 0, 60, "n")), "5" + strings.Repeat("0", ir(t, 0, 60, "z2")) + "1", "4", "6", ""}[ir(t, 0, 7, "tail")]
		all := cr + tail
		cut := ir(t, 0, len(all), "dot")
		intD, fracD = all[:cut], all[cut:]
		hasDot = cut < len(all) || ir(t, 0, 3, "trailingDot") == 0
	case kind <= 5:
		// straddling the 38/39-digit accumulation cut-off
		n := ir(t, 36, 42, "n")
		all := digitString(t, n)
		if all[0] == '0' {
			all = "1" + all[1:]
		}
		cut := ir(t, 0, n, "dot")
		intD, fracD = all[:cut], all[cut:]
		hasDot = true
	case kind == 6:
		// long literals
		n := ir(t, 43, 450, "n")
		if thorough && ir(t, 0, 40, "huge") == 0 {
			n = ir(t, 32000, 70000, "nHuge")
		}
		all := digitString(t, n)
		cut := ir(t, 0, n, "dot")
		if ir(t, 0, 2, "edgeDot") == 0 {
			cut = []int{0, n, 1, n - 1}[ir(t, 0, 3, "which")]
		}
		intD, fracD = all[:cut], all[cut:]
		hasDot = cut < n
	case kind == 7:
		// leading zeros (before and after the point)
		z := ir(t, 1, 120, "zeros")
		if thorough && ir(t, 0, 40, "hugeZ") == 0 {
			z = ir(t, 32700, 66000, "zHuge")
		}
		if ir(t, 0, 5, "edgeZ") == 0 {
			// no written exponent, the zeros alone carry the value to the bottom of the range (or the digit count to
			// a 15/16-bit counter's limit)
			z = []int{6176, 6142, 6111, 6210, 32767, 65535}[ir(t, 0, 5, "zEdge")] + ir(t, -40, 5, "zOff")
		}
		body := digitString(t, ir(t, 1, 40, "n"))
		if ir(t, 0, 1, "fracZeros") == 0 {
			intD, fracD, hasDot = "0", strings.Repeat("0", z)+body, true
		} else {
			intD, fracD, hasDot = strings.Repeat("0", z)+body, digitString(t, ir(t, 0, 5, "f")), true
		}
	case kind == 9 && ir(t, 0, 1, "compensated") == 0:
		// a very long run of zeros compensated by the written exponent: the value is moderate although both the
		// digit count and the exponent are far beyond the format's range (and beyond 16- and 20-bit counters)
		sizes := []int{300, 3000, 40000, 70000}
		if thorough || ir(t, 0, 60, "megaQuick") == 0 {
			sizes = append(sizes, 700000, 1100000)
		}
		z := sizes[ir(t, 0, len(sizes)-1, "zeros")] + ir(t, 0, 9, "zoff")
		body := digitString(t, ir(t, 1, 38, "n"))
		if strings.Trim(body, "0") == "" {
			body = "1" + body
		}
		lead := ir(t, -40, 40, "lead") // decimal exponent the value should end up with
		var e int
		if ir(t, 0, 1, "fracZeros") == 0 {
			intD, fracD, hasDot = "0", strings.Repeat("0", z)+body, true
			e = z + len(body) + lead
		} else {
			intD, fracD, hasDot = body+strings.Repeat("0", z), "", false
			e = -z + lead
		}
		return sign + func() string {
			if hasDot {
				return intD + "." + fracD
			}
			return intD
		}() + "e" + strconv.Itoa(e)
	case kind == 9:
		// an exactly representable value written out positionally with zeros far beyond the 39-digit
		// accumulator (what Format(d, 'f', -1) prints for large and for padded values): no mode may round it
		body := fullCoef(t).String()
		if ir(t, 0, 1, "short") == 0 {
			body = digitString(t, ir(t, 1, 34, "n"))
			if body[0] == '0' {
				body = "1" + body[1:]
			}
		}
		z := ir(t, 0, 60, "zeros")
		if ir(t, 0, 1, "fractional") == 0 {
			intD, fracD, hasDot = body+strings.Repeat("0", z), strings.Repeat("0", ir(t, 0, 50, "fz")), true
		} else {
			cut := ir(t, 0, len(body), "cut")
			intD, fracD, hasDot = body[:cut], body[cut:]+strings.Repeat("0", z), true
		}
	case kind == 10:
		// digit strings that run along the decimal expansion of 2^64, 2^128, 2^192, 2^256 (and neighbours): the
		// parser's accumulators are one and two words wide and their "room for one more digit?" tests change
		// outcome exactly where the digits read so far cross 2^64/10 or 2^128/10
		all := pow2Digits(t)
		cut := ir(t, 0, len(all), "dot")
		intD, fracD = strings.Repeat("0", []int{0, 0, 1, 7}[ir(t, 0, 3, "lz")])+all[:cut], all[cut:]
		hasDot = cut < len(all) || ir(t, 0, 3, "trailingDot") == 0
	case kind == 8:
		// zero values
		intD = strings.Repeat("0", ir(t, 0, 5, "iz"))
		fracD = strings.Repeat("0", ir(t, 0, 5, "fz"))
		if intD == "" && fracD == "" {
			intD = "0"
		}
		hasDot = fracD != "" || ir(t, 0, 1, "dot") == 0
	default:
		ni := ir(t, 0, 36, "ni")
		nf := ir(t, 0, 36, "nf")
		if ni == 0 && nf == 0 {
			ni = 1
		}
		intD, fracD = digitString(t, ni), digitString(t, nf)
		hasDot = nf > 0 || ir(t, 0, 3, "dot") == 0
	}
	if intD == "" && fracD == "" {
		intD = "7"
	}
	// exponent: steer the magnitude
	all := strings.TrimLeft(intD+fracD, "0")
	expStr := ""
	if ir(t, 0, 5, "hasExp") != 0 {
		var e int64
		switch ir(t, 0, 7, "expKind") {
		case 0:
			e = int64(ir(t, -40, 40, "e"))
		case 1, 2:
			lead := ir(t, -6225, -6130, "leadLow")
			e = int64(lead - len(all) + len(fracD))
		case 3, 4:
			lead := ir(t, 6100, 6150, "leadHigh")
			e = int64(lead - len(all) + len(fracD))
		case 5:
			e = int64(genNear(t, 30, -6176, 6111, -6190, 6190, 6145, -6215, 32767, -32768, 65536))
		case 6:
			e = int64(u64(t, "eHuge")>>ir(t, 1, 40, "shift")) * int64(1-2*ir(t, 0, 1, "eneg"))
		default:
			e = int64(ir(t, -7000, 7000, "e"))
		}
		es := strconv.FormatInt(e, 10)
		esign := ""
		if e < 0 {
			es = es[1:]
			esign = "-"
		} else if ir(t, 0, 2, "plus") == 0 {
			esign = "+"
		}
		es = strings.Repeat("0", []int{0, 0, 0, 1, 3, 30}[ir(t, 0, 5, "ez")]) + es
		if ir(t, 0, 9, "esep") == 0 {
			es = insertSeps(t, es)
		}
		expStr = string("eE"[ir(t, 0, 1, "echar")]) + esign + es
	}
	if ir(t, 0, 7, "seps") == 0 {
		intD, fracD = insertSeps(t, intD), insertSeps(t, fracD)
	}
	s := sign + intD
	if hasDot {
		s += "." + fracD
	} else {
		s += fracD
	}
	return s + expStr
}

// pow2Digits returns the first n digits of 2^k (or 3*2^k, 2^k/3), the last of them moved by -1..+2, followed by
// 0..12 arbitrary digits.
func pow2Digits(t *rapid.T) string {
	k := []uint{63, 64, 65, 67, 113, 114, 127, 128, 129, 131, 192, 256}[ir(t, 0, 11, "pow2k")]
	v := new(big.Int).Lsh(ref.One, k)
	switch ir(t, 0, 5, "pow2mul") {
	case 0:
		v.Mul(v, big.NewInt(3))
	case 1:
		v.Quo(new(big.Int).Mul(v, ref.Pow10(30)), big.NewInt(3))
	}
	full := v.String()
	n := ir(t, min(15, len(full)), len(full), "n")
	if ir(t, 0, 2, "fullLen") == 0 {
		n = len(full)
	}
	head, _ := new(big.Int).SetString(full[:n], 10)
	head.Add(head, bi(int64(ir(t, -1, 2, "off"))))
	return head.String() + digitString(t, ir(t, 0, 12, "tail"))
}

// nearGrammar: '/' and ':'..'@' around the digits, '*' ',' around the signs and the point, 'D' 'F' 'd' 'f' around
// the exponent marker, '^' '`' around '_', 'O' 'o' 'l' 'I' look-alikes, digits with bit 4, 6 or 7 flipped.
const nearGrammar = "/:;<=>?@*,DFdf^`OolI\x10\x15\x19\x20\x70\x75\x79\xb0\xb5\xb9\xae\xab\xad\xc5\xe5\xdf"

const mutChars = "0123456789.eE+-_ x\x00infatyINFATY"

func genInvalidCandidate(t *rapid.T) string {
	switch ir(t, 0, 6, "invKind") {
	case 6:
		// the special words with one letter's bits disturbed (top bit set, case bit and a neighbour bit, a
		// look-alike letter), with an optional sign: a case fold by mask (c&0x5f, c|0x20) accepts some of them
		w := []byte(randCase(t, []string{"inf", "nan", "infinity", "inf", "nan"}[ir(t, 0, 4, "word")]))
		pos := ir(t, 0, len(w)-1, "pos")
		w[pos] ^= []byte{0x80, 0x80, 0x40, 0x10, 0x01, 0x02, 0xa0}[ir(t, 0, 6, "bit")]
		return []string{"", "+", "-"}[ir(t, 0, 2, "sign")] + string(w)
	case 0:
		return string(ubytes(t, ir(t, 0, 12, "n"), "raw"))
	case 1:
		// strings over the literal alphabet
		n := ir(t, 0, 10, "n")
		b := make([]byte, n)
		w := ubytes(t, n, "alpha")
		for i := range b {
			b[i] = mutChars[int(w[i])%len(mutChars)]
		}
		return string(b)
	case 2:
		return []string{"", "+", "-", ".", "+.", "-.", "e", "e5", ".e5", "1e", "1e+", "1e-", "1_", "_1", "1__0", "1_.5", "1._5", "1.5_", "1.5_e3", "1e_5", "1e5_", "1e5.0", "1.2.3", "0x10", "1p3", " 1", "1 ", "1\n", "in", "infinit", "infinityy", "na", "nann", "+nan", "-nan", "--1", "+-1", "1e++5", "1e5e5", "١", "1,5", "1_e5", "._1", "1e+_5"}[ir(t, 0, 43, "fixed")]
	}
	// mutate a valid literal
	s := []byte(genValidLiteral(t, false))
	if len(s) > 90 {
		s = s[:90]
	}
	for k := ir(t, 1, 2, "muts"); k > 0; k-- {
		pos := 0
		if len(s) > 0 {
			pos = ir(t, 0, len(s), "pos")
		}
		c := mutChars[ir(t, 0, len(mutChars)-1, "char")]
		switch ir(t, 0, 3, "charKind") {
		case 0:
			// the ASCII neighbours of the grammar's own characters and their variants with one bit changed: a
			// range test written as a mask (c&0xf0 == '0'), an off-by-one bound ('9'+1 = ':'), a case fold by
			// OR 0x20 or a table indexed by c-'0' accept exactly these
			c = nearGrammar[ir(t, 0, len(nearGrammar)-1, "near")]
		case 1:
			c = byte(ir(t, 0, 255, "anyByte"))
		}
		switch ir(t, 0, 2, "op") {
		case 0:
			s = append(s[:pos], append([]byte{c}, s[pos:]...)...)
		case 1:
			if pos < len(s) {
				s = append(s[:pos], s[pos+1:]...)
			}
		default:
			if pos < len(s) {
				s[pos] = c
			}
		}
	}
	return string(s)
}

func TestC05_ParseValid(t *testing.T) {
	thorough := cfg.tier == "thorough"
	runRapid(t, 60000, 1500000, func(t *rapid.T) {
		c05.Run(t, c05Args{S: genValidLiteral(t, thorough)})
	})
}

func TestC05_ParseInvalid(t *testing.T) {
	runRapid(t, 60000, 1200000, func(t *rapid.T) {
		c05.Run(t, c05Args{S: genInvalidCandidate(t)})
	})
}

// reusedBuffer decodes s, a same-length twin of s (one mantissa digit changed) and s again from ONE byte slice that
// is overwritten in place between the calls, under one DefaultRoundingMode chosen by the case, and compares each
// result with the independent evaluation of the text the slice held at the time of the call.
func reusedBuffer(s string, l literal, st *Stat) *Violation {
	if l.Kind != ref.Finite || len(s) > 4096 || hashString(s)%4 != 0 {
		return nil
	}
	i := strings.IndexAny(s, "0123456789")
	if i < 0 {
		return nil
	}
	tw := []byte(s)
	if tw[i] == '9' {
		tw[i] = '4'
	} else {
		tw[i]++
	}
	twin := string(tw)
	l2 := classifyLiteral(twin)
	if l2.Class != l.Class || l2.Kind != ref.Finite {
		return nil
	}
	m := ref.Modes[hashString(s)>>2%6]
	buf := []byte(s)
	texts := []string{s, twin, s}
	lits := []literal{l, l2, l}
	for k := range texts {
		copy(buf, texts[k])
		u := prior(hashString(s) + uint64(k))
		var err error
		withDefaultMode(m, func() { err = u.UnmarshalText(buf) })
		want, overflow, alt := lits[k].expected(m)
		g := ref.Decode(u)
		if overflow {
			if err == nil || !errors.Is(err, strconv.ErrRange) {
				return violf("UnmarshalText(%s) from a reused buffer (call %d) mode %v: err %v, want an error matching strconv.ErrRange", abbr(strconv.Quote(texts[k])), k+1, m, err)
			}
			continue
		}
		if err != nil || (!ref.SameVal(g, want) && !(alt != nil && ref.SameVal(g, *alt))) {
			return violf("UnmarshalText(%s) from a buffer that held another literal before (call %d of 3 on one slice) mode %v = %s, %v; want %s", abbr(strconv.Quote(texts[k])), k+1, m, g, err, want)
		}
	}
	st.Class("reused-buffer")
	return nil
}
