package harness

import (
	"math/big"
	"testing"

	d128 "github.com/woodsbury/decimal128"
	"pgregory.net/rapid"

	"verif/harness/ref"
)

// C04 — comparisons agree with the exact mathematical order.

type c04Args struct {
	X, Y, Z D
}

// exactCmp orders two non-NaN decoded values.
func exactCmp(a, b ref.Num) int {
	rank := func(n ref.Num) int {
		if n.Class == ref.Inf {
			if n.Neg {
				return -1
			}
			return 1
		}
		return 0
	}
	ra, rb := rank(a), rank(b)
	if ra != rb || ra != 0 {
		switch {
		case ra < rb:
			return -1
		case ra > rb:
			return 1
		}
		return 0
	}
	return ref.CmpNum(a, b)
}

func exactCmpAbs(a, b ref.Num) int {
	a.Neg, b.Neg = false, false
	return exactCmp(a, b)
}

func sgn(i int) int {
	switch {
	case i < 0:
		return -1
	case i > 0:
		return 1
	}
	return 0
}

func checkPairOrder(x, y D) *Violation {
	dx, dy := x.Dec(), y.Dec()
	nx, ny := x.Num(), y.Num()
	cr := dx.Cmp(dy)
	ca := dx.CmpAbs(dy)
	eq := dx.Equal(dy)
	flags := func(c d128.CmpResult) (l, e, g bool) { return c.Less(), c.Equal(), c.Greater() }
	if nx.Class == ref.NaN || ny.Class == ref.NaN {
		for _, c := range []d128.CmpResult{cr, ca} {
			if l, e, g := flags(c); l || e || g || c.LessOrEqual() || c.GreaterOrEqual() {
				return violf("Cmp/CmpAbs(%s, %s) with a NaN reports an order (%d)", nx, ny, int(c))
			}
		}
		if eq {
			return violf("Equal(%s, %s) is true with a NaN operand", nx, ny)
		}
		want := 0
		if nx.Class == ref.NaN && ny.Class != ref.NaN {
			want = -1
		} else if nx.Class != ref.NaN {
			want = 1
		}
		if got := d128.Compare(dx, dy); got != want {
			return violf("Compare(%s, %s) = %d, want %d (NaN first)", nx, ny, got, want)
		}
		if !d128.Min(dx, dy).IsNaN() || !d128.Max(dx, dy).IsNaN() {
			return violf("Min/Max(%s, %s) must be NaN", nx, ny)
		}
		return nil
	}
	w := exactCmp(nx, ny)
	l, e, g := flags(cr)
	if cnt := b2i(l) + b2i(e) + b2i(g); cnt != 1 || (w < 0) != l || (w == 0) != e || (w > 0) != g {
		return violf("Cmp(%s, %s) = %d, exact order %d", nx, ny, int(cr), w)
	}
	if cr.LessOrEqual() != (w <= 0) || cr.GreaterOrEqual() != (w >= 0) {
		return violf("Cmp(%s, %s): LessOrEqual/GreaterOrEqual inconsistent with exact order %d", nx, ny, w)
	}
	wa := exactCmpAbs(nx, ny)
	l, e, g = flags(ca)
	if cnt := b2i(l) + b2i(e) + b2i(g); cnt != 1 || (wa < 0) != l || (wa == 0) != e || (wa > 0) != g {
		return violf("CmpAbs(%s, %s) = %d, exact order of magnitudes %d", nx, ny, int(ca), wa)
	}
	if eq != (w == 0) {
		return violf("Equal(%s, %s) = %v, exact order %d", nx, ny, eq, w)
	}
	if got := d128.Compare(dx, dy); sgn(got) != w || got < -1 || got > 1 {
		return violf("Compare(%s, %s) = %d, exact order %d", nx, ny, got, w)
	}
	// Min / Max: equal to the exact minimum / maximum, -0 below +0
	mn, mx := ref.Decode(d128.Min(dx, dy)), ref.Decode(d128.Max(dx, dy))
	wmin, wmax := nx, ny
	if w > 0 {
		wmin, wmax = ny, nx
	}
	if w == 0 && nx.IsZero() && ny.IsZero() {
		wmin = ref.Num{Class: ref.Finite, Neg: nx.Neg || ny.Neg, Coef: new(big.Int)}
		wmax = ref.Num{Class: ref.Finite, Neg: nx.Neg && ny.Neg, Coef: new(big.Int)}
	}
	if !ref.SameVal(mn, wmin) {
		return violf("Min(%s, %s) = %s, want %s", nx, ny, mn, wmin)
	}
	if !ref.SameVal(mx, wmax) {
		return violf("Max(%s, %s) = %s, want %s", nx, ny, mx, wmax)
	}
	return nil
}

func b2i(b bool) int {
	if b {
		return 1
	}
	return 0
}

var c04 = Register("C04", "C04.order", func(a c04Args) *Violation {
	st := S("C04", "order")
	st.Eval(1)
	ds := []D{a.X, a.Y, a.Z}
	// unary predicates
	for _, d := range ds {
		n := d.Num()
		dd := d.Dec()
		if dd.IsZero() != n.IsZero() {
			return violf("IsZero(%s) = %v", n, dd.IsZero())
		}
		if n.Class != ref.NaN {
			want := 0
			if !n.IsZero() {
				want = 1
				if n.Neg {
					want = -1
				}
			}
			if got := dd.Sign(); got != want {
				return violf("Sign(%s) = %d, want %d", n, got, want)
			}
		}
	}
	// all ordered pairs, both directions (antisymmetry follows from agreement with the exact order; asserted anyway)
	for i := 0; i < 3; i++ {
		for j := 0; j < 3; j++ {
			if v := checkPairOrder(ds[i], ds[j]); v != nil {
				return v
			}
		}
	}
	// transitivity of the reported order on the triple
	le := func(p, q D) bool { return p.Dec().Cmp(q.Dec()).LessOrEqual() }
	for _, p := range [][3]int{{0, 1, 2}, {0, 2, 1}, {1, 0, 2}, {1, 2, 0}, {2, 0, 1}, {2, 1, 0}} {
		if le(ds[p[0]], ds[p[1]]) && le(ds[p[1]], ds[p[2]]) && !le(ds[p[0]], ds[p[2]]) {
			return violf("order not transitive on %s <= %s <= %s", ds[p[0]].Num(), ds[p[1]].Num(), ds[p[2]].Num())
		}
		cmp := func(p, q D) int { return d128.Compare(p.Dec(), q.Dec()) }
		if cmp(ds[p[0]], ds[p[1]]) <= 0 && cmp(ds[p[1]], ds[p[2]]) <= 0 && cmp(ds[p[0]], ds[p[2]]) > 0 {
			return violf("Compare not transitive on %s, %s, %s", ds[p[0]].Num(), ds[p[1]].Num(), ds[p[2]].Num())
		}
	}
	// classification of the (X, Y) pair
	nx, ny := a.X.Num(), a.Y.Num()
	if nx.Class == ref.Finite && ny.Class == ref.Finite && !nx.IsZero() && !ny.IsZero() && nx.Neg == ny.Neg {
		lx := nx.Exp + ref.DecLen(nx.Coef)
		ly := ny.Exp + ref.DecLen(ny.Coef)
		if d := lx - ly; d >= -1 && d <= 1 {
			gap := nx.Exp - ny.Exp
			if gap < 0 {
				gap = -gap
			}
			switch {
			case gap == 0:
				st.Class("close/gap0")
			case gap <= 8:
				st.Class("close/gap1-8")
			case gap <= 18:
				st.Class("close/gap9-18")
			case gap <= 27:
				st.Class("close/gap19-27")
			default:
				st.Class("close/gap28-35")
			}
			if exactCmp(nx, ny) == 0 {
				st.Class("close/equal-other-cohort")
			}
			st.NT(hashWords(a.X.Hi, a.X.Lo, a.Y.Hi, a.Y.Lo, a.Z.Hi, a.Z.Lo), func() any {
				return map[string]any{"x": nx.String(), "y": ny.String(), "z": a.Z.Num().String(), "exact_order_xy": exactCmp(nx, ny)}
			})
			return nil
		}
		st.Class("far-apart")
		return nil
	}
	st.Class("special-or-zero-or-mixed-sign")
	return nil
})

// genNearValue draws an encoding of a value within a few units of d's value,
// expressed in a (possibly) different cohort member.
func genNearValue(t *rapid.T, d D) D {
	m := genCohortMember(t, d).Num()
	if m.Class != ref.Finite {
		return d
	}
	c := new(big.Int).Add(m.Coef, bi(int64(ir(t, -1, 1, "du"))))
	if ir(t, 0, 2, "higherDigit") == 0 {
		// the difference one to eight places above the last digit of this encoding, digits below it zero: when the
		// other operand is coarser, its alignment drops "d0", "d00", ... and every multi-digit step has to notice d
		j := ir(t, 1, 8, "place")
		c = new(big.Int).Add(m.Coef, new(big.Int).Mul(bi(int64(ir(t, -9, 9, "d"))), ref.Pow10(j)))
	}
	if c.Sign() < 0 || c.Cmp(ref.Cmax) > 0 {
		c = m.Coef
	}
	neg := m.Neg
	if ir(t, 0, 9, "flipSign") == 0 {
		neg = !neg
	}
	return DFin(neg, c, m.Exp)
}

func genOrderTriple(t *rapid.T) (D, D, D) {
	switch ir(t, 0, 11, "tripleKind") {
	case 10, 11:
		// a short coefficient at a high exponent against what its scaled-up coefficient wraps to in one or two
		// words (see genWrapAlias)
		n := ir(t, 1, 19, "len")
		x := DFin(genSign(t), genDigits(t, n), genExp(t))
		if rapid.Bool().Draw(t, "anyCoef") {
			x = genFiniteNZ(t)
		}
		y := genWrapAlias(t, x)
		if rapid.Bool().Draw(t, "swap") {
			return y, x, genWrapAlias(t, x)
		}
		return x, y, genNearValue(t, x)
	case 0:
		return genAny(t), genAny(t), genAny(t)
	case 1:
		return genFinite(t), genFinite(t), genFinite(t)
	case 2, 3, 4, 5, 6:
		// near-equal values across cohorts: every gap arm of Cmp/CmpAbs/Equal
		x := genFiniteNZ(t)
		if rapid.Bool().Draw(t, "manyZeros") {
			// values with many trailing zeros have large cohorts (gaps up to 34)
			n := ir(t, 1, 12, "len")
			x = DFin(genSign(t), genDigits(t, n), genExp(t))
		}
		return x, genNearValue(t, x), genNearValue(t, x)
	case 7:
		// zeros, infinities, NaNs mixed with a finite value
		pool := []D{genZero(t), genZero(t), genSpecial(t), genSpecial(t), genFinite(t)}
		i := ir(t, 0, 4, "i")
		j := ir(t, 0, 4, "j")
		k := ir(t, 0, 4, "k")
		return pool[i], pool[j], pool[k]
	case 8:
		// same coefficient digits, exponent shifted: magnitude comparison by length
		x := genFiniteNZ(t)
		nx := x.Num()
		y := DFin(nx.Neg, genCoef(t), clampExp(nx.Exp+ref.DecLen(nx.Coef)-ir(t, 1, 35, "ylen")))
		return x, y, genNearValue(t, y)
	}
	if ir(t, 0, 2, "farApartLong") == 0 {
		// far-apart magnitudes where the lower-exponent operand has a long (> 64-bit) coefficient that vanishes
		// when it is aligned: the early "significand became zero" returns inside the gap arms
		long := genDigits(t, ir(t, 20, 35, "len"))
		e := genExp(t)
		short := DFin(genSign(t), genDigits(t, ir(t, 1, 35, "slen")), clampExp(e+ir(t, 20, 90, "gap")))
		lo := DFin(genSign(t), capCoef(long), e)
		if ir(t, 0, 1, "order") == 0 {
			return short, lo, genNearValue(t, short)
		}
		return lo, short, genNearValue(t, lo)
	}
	if ir(t, 0, 1, "zeroGap") == 0 {
		// a zero whose exponent lies within the alignment range of a non-zero operand: every gap arm has an
		// early return for a zero significand
		x := genFiniteNZ(t)
		nx := x.Num()
		z := DFin(genSign(t), new(big.Int), clampExp(nx.Exp+ir(t, -40, 40, "gap")))
		if ir(t, 0, 1, "order") == 0 {
			return x, z, genCohortMember(t, x)
		}
		return z, x, genNearValue(t, x)
	}
	x := genFinite(t)
	return x, x, genCohortMember(t, x)
}

func TestC04_Order(t *testing.T) {
	runRapid(t, 100000, 6000000, func(t *rapid.T) {
		x, y, z := genOrderTriple(t)
		c04.Run(t, c04Args{X: x, Y: y, Z: z})
	})
}
