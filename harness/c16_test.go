package harness

import (
	"math/big"
	"testing"

	d128 "github.com/woodsbury/decimal128"
	"pgregory.net/rapid"

	"verif/harness/bigfl"
	"verif/harness/ref"
)

// C16 — exponential and logarithm functions are accurate to one unit in the last place.

type c16Fn struct {
	name string
	dec  func(d128.Decimal) d128.Decimal
	ref  func(*big.Float) *big.Float
	log  bool // domain x > 0 (Log1p: x > -1)
}

var c16Fns = map[string]*c16Fn{
	"Exp":   {"Exp", d128.Exp, bigfl.Exp, false},
	"Exp2":  {"Exp2", d128.Exp2, bigfl.Exp2, false},
	"Exp10": {"Exp10", d128.Exp10, bigfl.Exp10, false},
	"Expm1": {"Expm1", d128.Expm1, bigfl.Expm1, false},
	"Log":   {"Log", d128.Log, bigfl.Log, true},
	"Log2":  {"Log2", d128.Log2, bigfl.Log2, true},
	"Log10": {"Log10", d128.Log10, bigfl.Log10, true},
	"Log1p": {"Log1p", d128.Log1p, bigfl.Log1p, true},
}

var (
	bigCmax   = new(big.Float).SetPrec(bigfl.Prec).SetInt(ref.Cmax)
	maxFinite = new(big.Float).SetPrec(bigfl.Prec).Mul(bigCmax, bigfl.Pow10(ref.Emax))
)

// quantumOfFloat returns the exponent q of the format's spacing at |t|.
func quantumOfFloat(t *big.Float) int {
	at := new(big.Float).SetPrec(bigfl.Prec).Abs(t)
	// the format's spacing changes at (Cmax+1)*10^q = 2^110*10^(q+1); a true result exactly on such a
	// boundary (e.g. 0.04^55 = 2^110e-110) belongs to the coarser side, but the reference value may fall a
	// hair below it. Inflating by far less than the reference's own uncertainty resolves that case to the
	// coarser spacing, i.e. never to a stricter bound than the property states.
	at.Mul(at, new(big.Float).SetPrec(bigfl.Prec).SetMantExp(big.NewFloat(1).SetPrec(bigfl.Prec).Add(big.NewFloat(1), new(big.Float).SetMantExp(big.NewFloat(1), -300)), 0))
	e2 := at.MantExp(nil)
	q := int(float64(e2)*0.30102999566) - 36
	if q < ref.Emin {
		q = ref.Emin
	}
	for {
		lim := new(big.Float).SetPrec(bigfl.Prec).Mul(bigCmax, bigfl.Pow10(q))
		// members at exponent q reach up to Cmax*10^q + (almost) one more unit
		lim.Add(lim, bigfl.Pow10(q))
		if at.Cmp(lim) < 0 {
			return q
		}
		q++
	}
}

// ulpError returns |r - t| in units of the format spacing at t, times 1e6
// (integer micro-ulps, saturated), for a finite r.
func ulpError(r ref.Num, t *big.Float) (microUlps int64, q int) {
	q = quantumOfFloat(t)
	// T = t * 10^(26-q) rounded to an integer: t in units of 1e-26 ulp... keep 1e-6 resolution with margin
	const extra = 12
	ts := new(big.Float).SetPrec(bigfl.Prec).Mul(t, bigfl.Pow10(extra-q))
	T, _ := ts.Int(nil)
	R := new(big.Int).Set(r.Coef)
	sh := r.Exp - q + extra
	if sh >= 0 {
		if sh > 400 {
			return 1 << 62, q
		}
		R.Mul(R, ref.Pow10(sh))
	} else {
		if -sh > 400 {
			R.SetInt64(0)
		} else {
			R.Quo(R, ref.Pow10(-sh))
		}
	}
	if r.Neg {
		R.Neg(R)
	}
	diff := new(big.Int).Sub(R, T)
	diff.Abs(diff)
	diff.Quo(diff, ref.Pow10(extra-6))
	if !diff.IsInt64() {
		return 1 << 62, q
	}
	return diff.Int64(), q
}

type c16Args struct {
	Fn   string
	X    D
	Mode uint8 `json:",omitempty"` // DefaultRoundingMode during the call (index into ref.Modes; 0 = nearest-even)
}

// exactExpected returns the exactly representable result the statement names, if the argument is one of those cases.
func exactExpected(fn string, n ref.Num) (ref.Num, bool) {
	intVal := func() (int64, bool) { // n as a small integer
		if n.Class != ref.Finite {
			return 0, false
		}
		if n.IsZero() {
			return 0, true
		}
		x := ref.XOf(n)
		x.Neg = false
		if n.Exp < -40 || n.Exp+ref.DecLen(n.Coef) > 6 {
			return 0, false
		}
		q, _, exact := ref.IntDiv(x, 0)
		if !exact || !q.IsInt64() {
			return 0, false
		}
		v := q.Int64()
		if n.Neg {
			v = -v
		}
		return v, true
	}
	fin := func(neg bool, c *big.Int, e int) (ref.Num, bool) {
		return ref.Num{Class: ref.Finite, Neg: neg, Coef: c, Exp: e}, true
	}
	switch fn {
	case "Exp", "Exp2", "Exp10":
		if n.IsZero() {
			return fin(false, big.NewInt(1), 0)
		}
	}
	switch fn {
	case "Exp10":
		if v, ok := intVal(); ok && v >= ref.Emin && v <= 6144 {
			if v <= ref.Emax {
				return fin(false, big.NewInt(1), int(v))
			}
			return fin(false, ref.Pow10(int(v)-ref.Emax), ref.Emax)
		}
	case "Exp2":
		if v, ok := intVal(); ok && v >= -48 && v <= 113 {
			if v >= 0 {
				return fin(false, new(big.Int).Lsh(ref.One, uint(v)), 0)
			}
			return fin(false, pow(5, int(-v)), int(v))
		}
	case "Expm1", "Log1p":
		if n.IsZero() {
			return fin(n.Neg, new(big.Int), 0)
		}
	case "Log", "Log2", "Log10":
		if n.Class == ref.Finite && !n.Neg && !n.IsZero() {
			one := ref.Num{Class: ref.Finite, Coef: big.NewInt(1)}
			if ref.CmpNum(n, one) == 0 {
				return fin(false, new(big.Int), 0)
			}
			tz := ref.TrailingZeros(n.Coef)
			c := new(big.Int).Quo(n.Coef, ref.Pow10(tz))
			e := n.Exp + tz
			if fn == "Log10" && c.Cmp(ref.One) == 0 {
				neg := e < 0
				if neg {
					e = -e
				}
				return fin(neg, big.NewInt(int64(e)), 0)
			}
			if fn == "Log2" {
				// 2^k (k >= 0): c * 10^e with e >= 0 ... or 5^k * 10^-k
				if e >= 0 {
					v := new(big.Int).Mul(c, ref.Pow10(e))
					if v.BitLen() <= 114 && new(big.Int).Lsh(ref.One, uint(v.BitLen()-1)).Cmp(v) == 0 {
						return fin(false, big.NewInt(int64(v.BitLen()-1)), 0)
					}
				} else if k := -e; k <= 48 && c.Cmp(pow(5, k)) == 0 {
					return fin(true, big.NewInt(int64(k)), 0)
				}
			}
		}
	}
	return ref.Num{}, false
}

var c16 = Register("C16", "C16.explog", func(a c16Args) *Violation {
	st := S("C16", a.Fn)
	st.Eval(1)
	fn := c16Fns[a.Fn]
	if fn == nil {
		return nil
	}
	n := a.X.Num()
	if n.Class != ref.Finite {
		return nil // C15
	}
	if fn.log && fn.name != "Log1p" && (n.Neg || n.IsZero()) {
		return nil // out of domain: C15
	}
	if fn.name == "Log1p" && n.Neg && ref.CmpNum(n, ref.Num{Class: ref.Finite, Neg: true, Coef: big.NewInt(1)}) <= 0 {
		return nil // x <= -1: C15
	}
	// the one-ulp bound is stated without a mode, so it is checked under every DefaultRoundingMode; the
	// "exactly representable results are returned exactly" clause is stated for nearest-even only
	mode := ref.Modes[int(a.Mode)%6]
	old := d128.DefaultRoundingMode
	d128.DefaultRoundingMode = mode
	defer func() { d128.DefaultRoundingMode = old }()
	got := fn.dec(a.X.Dec())
	g := ref.Decode(got)
	if g.Class == ref.NaN {
		return violf("%s(%s) = NaN for an argument in the domain", fn.name, n)
	}
	// exactly representable results
	if want, ok := exactExpected(fn.name, n); ok && (mode == d128.ToNearestEven || n.IsZero()) {
		if knownActive("F15-expm1-negzero") && fn.name == "Expm1" && n.IsZero() && n.Neg {
			st.Exclude("F15-expm1-negzero")
			return nil
		}
		if !ref.SameVal(g, want) {
			return violf("%s(%s) = %s, the exact result %s is representable", fn.name, n, g, want)
		}
		st.Class("exact-result")
		if !n.IsZero() {
			st.NT(hashWords(hashString(a.Fn), a.X.Hi, a.X.Lo), func() any { return map[string]any{"fn": a.Fn, "x": n.String(), "result": g.String()} })
		}
		return nil
	}
	if n.IsZero() {
		return nil
	}
	// known-finding regions (active only while listed in KNOWN_FINDINGS.txt)
	x := bigfl.FromDec(n.Neg, n.Coef, n.Exp)
	if key := c16KnownRegion(fn.name, n, mode); key != "" && knownActive(key) {
		st.Exclude(key)
		if key == "F16-expm1-negative-tiny" {
			// envelope: the known failure is an absolute error of the order of the 57-digit working
			// precision; anything grosser in this region is a different defect and still reported
			t := fn.ref(x)
			// (under a mode that rounds away from zero the internally computed zero becomes +1e-6176,
			// so the sign is not constrained; the absolute-error bound below is what characterises F16)
			if g.Class != ref.Finite {
				return violf("Expm1(%s) = %s (inside the known region of F16, but not explained by it)", n, g)
			}
			diff := new(big.Float).SetPrec(bigfl.Prec).Sub(bigfl.FromDec(g.Neg, g.Coef, g.Exp), t)
			allowed := new(big.Float).SetPrec(bigfl.Prec).Add(bigfl.Pow10(-55), bigfl.Pow10(quantumOfFloat(t))) // the known absolute error on top of the one ulp every mode may use
			if diff.Abs(diff).Cmp(allowed) > 0 {
				return violf("Expm1(%s) = %s, true %s: error above one ulp + 1e-55 (inside the known region of F16, but grosser than it)", n, g, t.Text('e', 40))
			}
		}
		return nil
	}
	// analytic shortcuts for arguments far beyond every threshold (keeps the reference in its safe range)
	if !fn.log {
		lim := map[string]int64{"Exp": 30000, "Expm1": 30000, "Exp2": 45000, "Exp10": 13000}[fn.name]
		if ax := new(big.Float).Abs(x); ax.Cmp(new(big.Float).SetInt64(lim)) > 0 {
			// under nearest-even the limit value itself is required; under the other modes the neighbour the
			// mode selects is within one ulp and accepted as well
			strict := mode == d128.ToNearestEven
			maxFin := ref.Num{Class: ref.Finite, Coef: ref.Cmax, Exp: ref.Emax}
			minSub := ref.Num{Class: ref.Finite, Coef: big.NewInt(1), Exp: ref.Emin}
			switch {
			case !n.Neg:
				if !(g.Class == ref.Inf && !g.Neg) && !(!strict && ref.SameVal(g, maxFin)) {
					return violf("%s(%s) = %s, want +Inf", fn.name, n, g)
				}
			case fn.name == "Expm1":
				m1 := ref.Num{Class: ref.Finite, Neg: true, Coef: big.NewInt(1)}
				above := ref.Num{Class: ref.Finite, Neg: true, Coef: new(big.Int).Add(ref.Pow10(34), ref.One), Exp: -34}
				below := ref.Num{Class: ref.Finite, Neg: true, Coef: new(big.Int).Sub(ref.Pow10(34), ref.One), Exp: -34}
				if !ref.SameVal(g, m1) && !(!strict && (ref.SameVal(g, above) || ref.SameVal(g, below))) {
					return violf("Expm1(%s) = %s, want -1", n, g)
				}
			default:
				if !(g.IsZero() && !g.Neg) && !(!strict && ref.SameVal(g, minSub)) {
					return violf("%s(%s) = %s, want +0", fn.name, n, g)
				}
			}
			st.Class("far-beyond-threshold")
			return nil
		}
	}
	t := fn.ref(x)
	at := new(big.Float).Abs(t)
	if g.Class == ref.Inf {
		// acceptable only when the true result is within one ulp of (or beyond) the largest finite Decimal
		edge := new(big.Float).SetPrec(bigfl.Prec).Sub(maxFinite, bigfl.Pow10(ref.Emax))
		if at.Cmp(edge) < 0 || g.Neg != (t.Sign() < 0) {
			return violf("%s(%s) = %s but the true result %s is representable", fn.name, n, g, t.Text('e', 40))
		}
		st.Class("overflow")
		st.NT(hashWords(hashString(a.Fn), a.X.Hi, a.X.Lo), func() any { return map[string]any{"fn": a.Fn, "x": n.String(), "result": g.String()} })
		return nil
	}
	mu, q := ulpError(g, t)
	if mu > 1_000_000 {
		return violf("%s(%s) = %s, true result %s: error %.6g ulp (ulp = 1e%d)", fn.name, n, g, t.Text('e', 45), float64(mu)/1e6, q)
	}
	if !g.IsZero() && t.Sign() != 0 && g.Neg != (t.Sign() < 0) {
		return violf("%s(%s) = %s has the wrong sign (true result %s)", fn.name, n, g, t.Text('e', 40))
	}
	if mode == d128.ToNearestEven {
		st.NoteMax("max_error_ulp_nearest_even", float64(mu)/1e6)
		if mu > 500_000 {
			st.Class("error>0.5ulp(nearest-even)")
		}
	} else {
		st.NoteMax("max_error_ulp_other_modes", float64(mu)/1e6)
		st.Class("mode-other-than-nearest-even")
	}
	lead := n.Exp + ref.DecLen(n.Coef)
	switch {
	case q == ref.Emin:
		st.Class("subnormal-or-underflow-result")
	case lead <= -30:
		st.Class("|x|<1e-30")
	case lead <= -10:
		st.Class("|x|<1e-10")
	case lead <= 0:
		st.Class("|x|<1")
	case lead <= 3:
		st.Class("|x|<1e3")
	default:
		st.Class("|x|>=1e3")
	}
	st.NT(hashWords(hashString(a.Fn), a.X.Hi, a.X.Lo, uint64(a.Mode)), func() any {
		return map[string]any{"fn": a.Fn, "x": n.String(), "mode": mode.String(), "result": g.String(), "error_ulp": float64(mu) / 1e6}
	})
	return nil
})

// c16KnownRegion names the known-finding region an argument falls into ("" if none).
func c16KnownRegion(fn string, n ref.Num, mode d128.RoundingMode) string {
	lead := n.Exp + ref.DecLen(n.Coef) // |x| < 10^lead
	switch {
	case fn == "Expm1" && n.Neg && (lead <= -21 || (mode != d128.ToNearestEven && lead <= -15)):
		// the ~1e-56 absolute error exceeds one ulp below 1e-21 under nearest-even; under a directed mode it
		// can push an already one-ulp-off truncation to 1.001 ulp up to |x| ~ 1e-16
		return "F16-expm1-negative-tiny"
	case fn == "Log1p" && lead <= -3600:
		return "F18-log1p-tiny"
	}
	return ""
}

// ---- generators -----------------------------------------------------------------------

func genExpArg(t *rapid.T, fn string) D {
	neg := genSign(t)
	if ir(t, 0, 39, "zeroArg") == 0 {
		return genZero(t) // zeros of either sign at any exponent: Exp(0) = 1, Expm1(+-0) = +-0
	}
	switch ir(t, 0, 9, "argKind") {
	case 0:
		// magnitude uniform over the whole range of tiny arguments
		c := genCoef(t)
		if c.Sign() == 0 {
			c = bi(1)
		}
		lead := ir(t, ref.Emin, 6, "lead")
		return DFin(neg, c, clampExp(lead-ref.DecLen(c)))
	case 1, 2, 3:
		// moderate arguments
		c := genCoef(t)
		if c.Sign() == 0 {
			c = bi(1)
		}
		lead := ir(t, -40, 5, "lead")
		return DFin(neg, c, clampExp(lead-ref.DecLen(c)))
	case 4:
		// integers and simple fractions (exact results, table slots)
		return genCohortMember(t, DFin(neg, bi(int64(ir(t, 0, 7000, "int"))), 0))
	case 5, 6:
		// threshold windows on the integer part
		var piv []int
		switch fn {
		case "Exp", "Expm1":
			piv = []int{14149, 14150, 14220, 14221, 80, 81, 32767, 65536, 75300, 75450, 75600, 99999, 100000}
		case "Exp2":
			piv = []int{6211, 6212, 20413, 20414, 20415, 20516, 20517, 113, 48, 255, 256, 128, 192, 64, 20703, 20704, 32767, 65536, 99999, 100000}
		default:
			piv = []int{6111, 6112, 6144, 6145, 6146, 6176, 6177, 6178, 6169, 6170, 6234, 6235, 9999, 10000, 32767, 65536}
		}
		ip := genNear(t, 30, piv...)
		if ip < 0 {
			ip = -ip
		}
		frac := genDigits(t, ir(t, 1, 28, "fracLen"))
		fl := ref.DecLen(frac)
		if ir(t, 0, 2, "intOnly") == 0 {
			return genCohortMember(t, DFin(neg, bi(int64(ip)), 0))
		}
		c := new(big.Int).Mul(bi(int64(ip)), ref.Pow10(fl))
		c.Add(c, frac)
		return DFin(neg, capCoef(c), -fl)
	case 7:
		// small |x| near the cancellation regions: 1e-k scale with few digits
		k := ir(t, 1, 70, "k")
		return DFin(neg, genDigits(t, ir(t, 1, 6, "len")), -k)
	case 8:
		// huge arguments (far beyond the thresholds)
		c := genCoef(t)
		if c.Sign() == 0 {
			c = bi(1)
		}
		return DFin(neg, c, ir(t, -30, 6111, "e"))
	}
	return DFin(neg, genCoef(t), genExp(t))
}

func genLogArg(t *rapid.T, fn string) D {
	if fn == "Log1p" {
		neg := genSign(t)
		if ir(t, 0, 39, "zeroArg") == 0 {
			return genZero(t)
		}
		switch ir(t, 0, 7, "argKind") {
		case 0:
			c := genCoef(t)
			if c.Sign() == 0 {
				c = bi(1)
			}
			lead := ir(t, ref.Emin, 0, "lead")
			return DFin(neg, c, clampExp(lead-ref.DecLen(c)))
		case 1:
			c := genCoef(t)
			if c.Sign() == 0 {
				c = bi(1)
			}
			lead := ir(t, -3600, 0, "leadAboveF18")
			return DFin(neg, c, clampExp(lead-ref.DecLen(c)))
		case 2:
			k := ir(t, 1, 70, "k")
			return DFin(neg, genDigits(t, ir(t, 1, 6, "len")), -k)
		case 3:
			// just above -1
			k := ir(t, 1, 34, "k")
			c := new(big.Int).Sub(ref.Pow10(k), bi(int64(ir(t, 1, 9, "d"))))
			return DFin(true, c, -k)
		case 4:
			// threshold windows of the tiny-argument series
			lead := genNear(t, 30, -3640, -3650, -4000, -10, -9, -32768+6176)
			return DFin(neg, genDigits(t, ir(t, 1, 34, "len")), clampExp(lead-34))
		case 5:
			c := genCoef(t)
			if c.Sign() == 0 {
				c = bi(1)
			}
			return DFin(false, c, genExp(t))
		}
		c := genCoef(t)
		if c.Sign() == 0 {
			c = bi(1)
		}
		lead := ir(t, -40, 3, "lead")
		d := DFin(neg, c, clampExp(lead-ref.DecLen(c)))
		return d
	}
	switch ir(t, 0, 9, "argKind") {
	case 0, 1, 2:
		// the full exponent range
		c := genCoef(t)
		if c.Sign() == 0 {
			c = bi(1)
		}
		return DFin(false, c, genExp(t))
	case 3, 4:
		// 1 +/- j * 10^-k
		k := ir(t, 1, 34, "k")
		j := int64(ir(t, 1, 99, "j"))
		c := ref.Pow10(k)
		if ir(t, 0, 1, "below") == 0 {
			c = new(big.Int).Sub(c, bi(j))
		} else {
			c = new(big.Int).Add(c, bi(j))
		}
		return DFin(false, capCoef(c), -k)
	case 5:
		// exact-result arguments: powers of two and ten in any cohort
		if ir(t, 0, 1, "ten") == 0 {
			return genCohortMember(t, DFin(false, bi(1), ir(t, ref.Emin, ref.Emax, "e")))
		}
		k := ir(t, -48, 113, "k")
		if k >= 0 {
			return genCohortMember(t, DFin(false, new(big.Int).Lsh(ref.One, uint(k)), 0))
		}
		return DFin(false, pow(5, -k), k)
	case 6:
		// every table slot: leading two digits 10..99, both exponent parities
		lead2 := ir(t, 10, 99, "lead2")
		rest := genDigits(t, ir(t, 1, 32, "rest"))
		c := new(big.Int).Mul(bi(int64(lead2)), ref.Pow10(ref.DecLen(rest)))
		c.Add(c, rest)
		return DFin(false, capCoef(c), ir(t, -40, 40, "e"))
	case 7:
		// moderate values
		c := genCoef(t)
		if c.Sign() == 0 {
			c = bi(1)
		}
		lead := ir(t, -40, 40, "lead")
		return DFin(false, c, clampExp(lead-ref.DecLen(c)))
	}
	return DFin(false, capCoef(genDigits(t, ir(t, 1, 35, "len"))), genExp(t))
}

func c16Test(fn string, quick, thorough int) func(*testing.T) {
	return func(t *testing.T) {
		runRapid(t, quick, thorough, func(t *rapid.T) {
			var x D
			if c16Fns[fn].log {
				x = genLogArg(t, fn)
			} else {
				x = genExpArg(t, fn)
			}
			if ir(t, 0, 9, "pow2lead") == 0 {
				// a significand running along the digits of 2^64 .. 2^256 (see genPow2Lead): the 192-bit working
				// format scales every argument by powers of ten until its top word is nearly full
				c := genPow2Lead(t)
				nd := ref.DecLen(c)
				switch {
				case !c16Fns[fn].log:
					x = DFin(genSign(t), c, ir(t, -40, 4, "lead")-nd)
				case fn == "Log1p" && rapid.Bool().Draw(t, "neg"):
					x = DFin(true, c, ir(t, -40, -1, "lead")-nd)
				case rapid.Bool().Draw(t, "wide"):
					x = DFin(false, c, genExp(t))
				default:
					x = DFin(false, c, clampExp(ir(t, -60, 70, "lead")-nd))
				}
			}
			a := c16Args{Fn: fn, X: x}
			if ir(t, 0, 2, "otherMode") == 0 {
				a.Mode = uint8(ir(t, 1, 5, "mode"))
			}
			c16.Run(t, a)
		})
	}
}

func TestC16_Exp(t *testing.T)   { c16Test("Exp", 15000, 400000)(t) }
func TestC16_Exp2(t *testing.T)  { c16Test("Exp2", 15000, 400000)(t) }
func TestC16_Exp10(t *testing.T) { c16Test("Exp10", 15000, 400000)(t) }
func TestC16_Expm1(t *testing.T) { c16Test("Expm1", 15000, 400000)(t) }
func TestC16_Log(t *testing.T)   { c16Test("Log", 15000, 400000)(t) }
func TestC16_Log2(t *testing.T)  { c16Test("Log2", 15000, 400000)(t) }
func TestC16_Log10(t *testing.T) { c16Test("Log10", 15000, 400000)(t) }
func TestC16_Log1p(t *testing.T) { c16Test("Log1p", 15000, 400000)(t) }
