package harness

import (
	"math"
	"math/big"
	"testing"

	d128 "github.com/woodsbury/decimal128"
	"pgregory.net/rapid"

	"verif/harness/ref"
)

// C11 — New, Ldexp and Frexp scale by powers of ten without losing value.

// scaled returns the expected result of rounding (-1)^neg * c * 10^(e1+e2)
// (c > 0) to nearest-even with the flush rule, deciding huge exponents
// analytically.
func scaled(neg bool, c *big.Int, e1 int, e2 int) ref.Num {
	// clamp first: e1, e2 may each be near the int extremes
	cl := func(v int) int64 {
		if v > 40000 {
			return 40000
		}
		if v < -40000 {
			return -40000
		}
		return int64(v)
	}
	e := cl(e1) + cl(e2)
	nd := int64(ref.DecLen(c))
	switch {
	case e+nd-1 >= 6146:
		return ref.Num{Class: ref.Inf, Neg: neg}
	case e+nd <= -6178:
		return ref.Num{Class: ref.Finite, Neg: neg, Coef: new(big.Int)}
	}
	return ref.RoundX(ref.X{Neg: neg, Num: c, Den: ref.One, Exp: int(e)}, d128.ToNearestEven, true)
}

type c11NewArgs struct {
	Sig int64
	Exp int
}

var c11new = Register("C11", "C11.new", func(a c11NewArgs) *Violation {
	st := S("C11", "new")
	st.Eval(1)
	primedUnderAnotherMode(hashWords(uint64(a.Sig), uint64(a.Exp)), func() { _ = d128.New(a.Sig, a.Exp) })
	got := ref.Decode(d128.New(a.Sig, a.Exp))
	if a.Sig == 0 {
		if !got.IsZero() {
			return violf("New(0, %d) = %s", a.Exp, got)
		}
		st.Class("zero")
		return nil
	}
	neg := a.Sig < 0
	c := new(big.Int).Abs(big.NewInt(a.Sig))
	want := scaled(neg, c, a.Exp, 0)
	if !ref.SameVal(got, want) {
		return violf("New(%d, %d) = %s, want %s", a.Sig, a.Exp, got, want)
	}
	klass := "in-range-exact"
	switch {
	case want.Class == ref.Inf:
		klass = "overflow"
	case want.IsZero():
		klass = "underflow-to-zero"
	case a.Exp < ref.Emin:
		klass = "subnormal-exact"
		if !ref.EqualsX(want, ref.X{Neg: neg, Num: c, Den: ref.One, Exp: a.Exp}) {
			klass = "subnormal-rounded"
		}
	case a.Exp > ref.Emax:
		klass = "above-emax-compensated"
	}
	st.Class(klass)
	if klass == "in-range-exact" || klass == "subnormal-exact" || klass == "above-emax-compensated" {
		if v := exactInAllModes("New("+itoa64(a.Sig)+", "+itoa64(int64(a.Exp))+")", d128.New(a.Sig, a.Exp), func() d128.Decimal { return d128.New(a.Sig, a.Exp) }); v != nil {
			return v
		}
	}
	if klass != "in-range-exact" {
		st.NT(hashWords(uint64(a.Sig), uint64(int64(a.Exp))), func() any {
			return map[string]any{"sig": a.Sig, "exp": a.Exp, "class": klass, "want": want.String()}
		})
	}
	return nil
})

type c11LdexpArgs struct {
	Frac D
	Exp  int
}

var c11ldexp = Register("C11", "C11.ldexp", func(a c11LdexpArgs) *Violation {
	st := S("C11", "ldexp")
	st.Eval(1)
	f := a.Frac.Dec()
	nf := a.Frac.Num()
	primedUnderAnotherMode(hashWords(a.Frac.Hi, a.Frac.Lo, uint64(a.Exp)), func() { _ = d128.Ldexp(f, a.Exp) })
	gotD := d128.Ldexp(f, a.Exp)
	got := ref.Decode(gotD)
	if nf.Class != ref.Finite || nf.IsZero() {
		if gotD != f {
			return violf("Ldexp(%s, %d) = %s, want the argument unchanged", nf, a.Exp, got)
		}
		st.Class("special-or-zero")
		return nil
	}
	want := scaled(nf.Neg, nf.Coef, nf.Exp, a.Exp)
	if !ref.SameVal(got, want) {
		return violf("Ldexp(%s, %d) = %s, want %s", nf, a.Exp, got, want)
	}
	e := int64(nf.Exp) + int64(max(min(a.Exp, 40000), -40000))
	klass := "in-range-exact"
	switch {
	case want.Class == ref.Inf:
		klass = "overflow"
	case want.IsZero():
		klass = "underflow-to-zero"
	case e < ref.Emin:
		klass = "subnormal-exact"
		if !ref.EqualsX(want, ref.X{Neg: nf.Neg, Num: nf.Coef, Den: ref.One, Exp: int(e)}) {
			klass = "subnormal-rounded"
		}
	case e > ref.Emax:
		klass = "above-emax-compensated"
	}
	if a.Exp < ref.Emin || a.Exp > ref.Emax+39 {
		st.Class("exp-argument-alone-out-of-range")
	}
	st.Class(klass)
	if klass == "in-range-exact" || klass == "subnormal-exact" || klass == "above-emax-compensated" {
		if v := exactInAllModes("Ldexp("+nf.String()+", "+itoa64(int64(a.Exp))+")", gotD, func() d128.Decimal { return d128.Ldexp(f, a.Exp) }); v != nil {
			return v
		}
	}
	if klass != "in-range-exact" {
		st.NT(hashWords(a.Frac.Hi, a.Frac.Lo, uint64(int64(a.Exp))), func() any {
			return map[string]any{"frac": nf.String(), "exp": a.Exp, "class": klass, "want": want.String()}
		})
	}
	return nil
})

type c11FrexpArgs struct {
	V D
}

var c11frexp = Register("C11", "C11.frexp", func(a c11FrexpArgs) *Violation {
	st := S("C11", "frexp")
	st.Eval(1)
	d := a.V.Dec()
	n := a.V.Num()
	frac, e := d128.Frexp(d)
	nf := ref.Decode(frac)
	if n.Class != ref.Finite || n.IsZero() {
		if frac != d || e != 0 {
			return violf("Frexp(%s) = (%s, %d), want the argument unchanged and 0", n, nf, e)
		}
		st.Class("special-or-zero")
		return nil
	}
	if nf.Class != ref.Finite || nf.Neg != n.Neg || nf.IsZero() {
		return violf("Frexp(%s) = (%s, %d)", n, nf, e)
	}
	// 0.1 <= |frac| < 1
	tenth := ref.X{Num: ref.One, Den: ref.One, Exp: -1}
	one := ref.X{Num: ref.One, Den: ref.One, Exp: 0}
	fx := ref.XOf(nf)
	if ref.CmpAbsX(fx, tenth) < 0 || ref.CmpAbsX(fx, one) >= 0 {
		return violf("Frexp(%s): fraction %s outside [0.1, 1)", n, nf)
	}
	// frac * 10^e == d exactly
	if !ref.EqualsX(n, ref.X{Neg: nf.Neg, Num: nf.Coef, Den: ref.One, Exp: nf.Exp + e}) {
		return violf("Frexp(%s) = (%s, %d): frac*10^e differs from d", n, nf, e)
	}
	back := ref.Decode(d128.Ldexp(frac, e))
	if !ref.SameVal(back, n) {
		return violf("Ldexp(Frexp(%s)) = %s", n, back)
	}
	if v := exactInAllModes("Ldexp(Frexp("+n.String()+"))", d, func() d128.Decimal { return d128.Ldexp(d128.Frexp(d)) }); v != nil {
		return v
	}
	st.NT(hashWords(a.V.Hi, a.V.Lo), func() any {
		return map[string]any{"d": n.String(), "frac": nf.String(), "e": e}
	})
	return nil
})

func genScaleExp(t *rapid.T) int {
	switch ir(t, 0, 11, "expKind") {
	case 11:
		return genWrapInt(t, ir(t, -6200, 6200, "expBase"))
	case 0, 1:
		return ir(t, -7000, 7000, "exp")
	case 2, 8, 9:
		return ir(t, ref.Emin-25, ref.Emin+20, "expLow")
	case 3, 10:
		return ir(t, ref.Emax-5, ref.Emax+45, "expHigh")
	case 4:
		return []int{math.MinInt, math.MinInt + 1, math.MaxInt, math.MaxInt - 1, math.MinInt32, math.MaxInt32, -1 << 15, 1<<15 - 1, 1 << 15, 1 << 16, -(1 << 16), 1<<16 - 6176, 1<<16 + 6111}[ir(t, 0, 12, "extreme")]
	case 5:
		return ir(t, -40, 40, "expSmall")
	}
	return ir(t, -13000, 13000, "expWide")
}

// subnormalTie returns (c, k): a coefficient of at most maxLen digits made of a retained head, a dropped part of k
// digits that is an exact tie, a tie plus or minus one digit somewhere below, or 0/…/9 followed by zeros with a
// single stray digit, so that scaling c down by k places below the smallest exponent exercises every way a
// multi-digit reduction step can lose the sticky information (the digit two, three or four places below the
// rounding digit).
func subnormalTie(t *rapid.T, maxLen int) (*big.Int, int) {
	k := ir(t, 1, maxLen-1, "drop")
	alen := ir(t, 0, maxLen-k, "alen")
	a := new(big.Int)
	if alen > 0 {
		a = genDigits(t, alen)
		switch ir(t, 0, 3, "parity") {
		case 0:
			a.SetBit(a, 0, 0) // even head: ties go down
		case 1:
			a.SetBit(a, 0, 1)
		}
	}
	lead := int64([]int{5, 5, 5, 0, 4, 9}[ir(t, 0, 5, "leadDigit")])
	tail := new(big.Int).Mul(big.NewInt(lead), ref.Pow10(k-1))
	if k > 1 && ir(t, 0, 3, "stray") != 0 {
		j := ir(t, 0, k-2, "strayPos")
		d := int64(ir(t, 1, 9, "strayDigit"))
		if lead == 5 && ir(t, 0, 3, "below") == 0 {
			// 4999..9 with one digit lowered: just under the tie
			tail.Sub(tail, new(big.Int).Mul(big.NewInt(d), ref.Pow10(j)))
		} else {
			tail.Add(tail, new(big.Int).Mul(big.NewInt(d), ref.Pow10(j)))
		}
	}
	c := new(big.Int).Mul(a, ref.Pow10(k))
	c.Add(c, tail)
	if c.Sign() <= 0 {
		c.SetInt64(5)
		k = 1
	}
	return c, k
}

// topBandLead returns (c, e) with c a k-digit number (k <= maxK) next to the first k digits of the largest
// coefficient and e = 6111 + (35 - k) (sometimes one off): c * 10^e sits at the very top of the range, where the
// exponent excess has to be moved into the coefficient and the result is finite only if c * 10^(35-k) <= Cmax.
func topBandLead(t *rapid.T, maxK int) (*big.Int, int) {
	k := ir(t, 1, maxK, "k")
	lead := new(big.Int).Quo(ref.Cmax, ref.Pow10(35-k))
	switch ir(t, 0, 3, "offKind") {
	case 0:
		lead.Add(lead, bi(int64(ir(t, -3, 3, "off"))))
	case 1:
		lead.Sub(lead, bi(int64(ir(t, 0, 4000, "below"))))
	case 2:
		// anywhere in the top decade
		lo := ref.Pow10(k - 1)
		span := new(big.Int).Sub(lead, lo)
		if span.Sign() > 0 {
			r := new(big.Int).SetUint64(u64(t, "r"))
			lead = new(big.Int).Add(lo, r.Mod(r, span))
		}
	}
	if lead.Sign() <= 0 {
		lead.SetInt64(1)
	}
	if lead.Cmp(ref.Cmax) > 0 {
		lead.Set(ref.Cmax)
	}
	e := ref.Emax + 35 - k
	if ir(t, 0, 5, "eOff") == 0 {
		e += ir(t, -1, 1, "eo")
	}
	return lead, e
}

func TestC11_New(t *testing.T) {
	runRapid(t, 150000, 5000000, func(t *rapid.T) {
		var sig int64
		switch ir(t, 0, 7, "sigKind") {
		case 7:
			// results below the smallest exponent whose dropped digits sit on or next to a tie
			c, k := subnormalTie(t, 18)
			sig = c.Int64()
			if rapid.Bool().Draw(t, "neg") {
				sig = -sig
			}
			c11new.Run(t, c11NewArgs{Sig: sig, Exp: ref.Emin - k})
			return
		case 0:
			sig = []int64{math.MinInt64, math.MinInt64 + 1, math.MaxInt64, math.MaxInt64 - 1, 1, -1, 5, -5, 0}[ir(t, 0, 8, "bound")]
		case 1:
			sig = ref.Pow10(ir(t, 0, 18, "p10")).Int64() * int64(ir(t, -9, 9, "m"))
		case 2:
			sig = int64(ir(t, -1000, 1000, "small"))
		case 3:
			sig = genDigits(t, ir(t, 1, 18, "len")).Int64()
			if rapid.Bool().Draw(t, "neg") {
				sig = -sig
			}
		case 4:
			// exponent above the range, compensated by a short significand that lands next to the largest
			// coefficient: the first k digits of Cmax +- a little, at exponent 6111 + (35 - k)
			lead, e := topBandLead(t, 19)
			sig = lead.Int64()
			if rapid.Bool().Draw(t, "neg") {
				sig = -sig
			}
			c11new.Run(t, c11NewArgs{Sig: sig, Exp: e})
			return
		default:
			sig = int64(u64(t, "sig"))
		}
		c11new.Run(t, c11NewArgs{Sig: sig, Exp: genScaleExp(t)})
	})
}

func TestC11_Ldexp(t *testing.T) {
	runRapid(t, 100000, 4000000, func(t *rapid.T) {
		var f D
		if ir(t, 0, 9, "fKind") == 0 {
			f = genAny(t)
		} else {
			f = genFinite(t)
		}
		if ir(t, 0, 9, "subTie") == 0 {
			c, k := subnormalTie(t, 34)
			fe := genExp(t)
			c11ldexp.Run(t, c11LdexpArgs{Frac: DFin(genSign(t), c, fe), Exp: ref.Emin - k - fe})
			return
		}
		if ir(t, 0, 9, "topBand") == 0 {
			lead, e := topBandLead(t, 35)
			fe := genExp(t)
			c11ldexp.Run(t, c11LdexpArgs{Frac: DFin(genSign(t), lead, fe), Exp: e - fe})
			return
		}
		nf := f.Num()
		var e int
		if nf.Class == ref.Finite && ir(t, 0, 2, "steer") > 0 {
			// choose exp so that frac.exp + exp lands in an interesting window even when exp alone is out of range
			target := genNear(t, 45, ref.Emin-35, ref.Emin, ref.Emax, ref.Emax+35, 0)
			e = target - nf.Exp
		} else {
			e = genScaleExp(t)
		}
		c11ldexp.Run(t, c11LdexpArgs{Frac: f, Exp: e})
	})
}

func TestC11_Frexp(t *testing.T) {
	runRapid(t, 60000, 3000000, func(t *rapid.T) {
		c11frexp.Run(t, c11FrexpArgs{V: genAny(t)})
	})
}
