package harness

import (
	"math/big"
	"testing"

	d128 "github.com/woodsbury/decimal128"
	"pgregory.net/rapid"

	"verif/harness/ref"
)

// C01 — addition and subtraction are correctly rounded in all six modes.

type c01Args struct {
	X, Y D
	Sub  bool
}

// withDefaultMode runs f with DefaultRoundingMode set to m and restores it.
func withDefaultMode(m d128.RoundingMode, f func()) {
	old := d128.DefaultRoundingMode
	d128.DefaultRoundingMode = m
	defer func() { d128.DefaultRoundingMode = old }()
	f()
}

var c01 = Register("C01", "C01.addsub", func(a c01Args) *Violation {
	st := S("C01", "addsub")
	st.Eval(1)
	x, y := a.X.Dec(), a.Y.Dec()
	nx, ny := a.X.Num(), a.Y.Num()
	if nx.Class != ref.Finite || ny.Class != ref.Finite {
		return nil // generator only produces finite operands; specials belong to C15
	}
	opname := "Add"
	ey := ny // effective second operand
	if a.Sub {
		opname = "Sub"
		ey = ref.NegNum(ny)
	}
	sum, zero := ref.AddX(nx, ey)
	xz, yz := nx.IsZero(), ny.IsZero()

	nontrivial := false
	var klass string
	for _, m := range loopModes() {
		var got d128.Decimal
		if a.Sub {
			got = x.SubWithMode(y, m)
		} else {
			got = x.AddWithMode(y, m)
		}
		g := ref.Decode(got)
		var want ref.Num
		switch {
		case xz && yz:
			want = ref.Num{Class: ref.Finite, Neg: nx.Neg && ey.Neg, Coef: new(big.Int)}
			klass = "both-zero"
		case xz:
			want = ey
			klass = "x-zero"
		case yz:
			want = nx
			klass = "y-zero"
		case zero:
			want = ref.Num{Class: ref.Finite, Neg: m == d128.ToNegativeInf, Coef: new(big.Int)}
			klass = "cancel"
			nontrivial = true
		default:
			want = ref.RoundX(sum, m, false)
		}
		if !ref.SameVal(g, want) {
			return violf("%s(%s, %s) mode %v = %s, want %s (exact %s)", opname, nx, ny, m, g, want, sum)
		}
		// the mode-less form under DefaultRoundingMode = m is bit-identical
		var got2 d128.Decimal
		withDefaultMode(m, func() {
			if a.Sub {
				got2 = x.Sub(y)
			} else {
				got2 = x.Add(y)
			}
		})
		if got2 != got {
			return violf("%s(%s, %s) under DefaultRoundingMode=%v gives %s, %sWithMode gives %s", opname, nx, ny, m, ref.Decode(got2), opname, g)
		}
	}
	if !xz && !yz && !zero {
		e := ref.Quantum(sum)
		_, half, exact := ref.IntDiv(sum, e)
		if !exact {
			nontrivial = true
			gap := nx.Exp - ny.Exp
			if gap < 0 {
				gap = -gap
			}
			switch {
			case half == 0:
				klass = "tie"
			case isNearTie(sum, e):
				klass = "near-tie"
			case gap > 35:
				klass = "inexact-gap>35"
			default:
				klass = "inexact"
			}
			if ref.RoundX(sum, d128.AwayFromZero, false).Class == ref.Inf {
				st.Class("overflow-edge")
			}
		} else {
			klass = "exact"
		}
		if nx.Neg != ey.Neg {
			st.Class("effective-subtraction")
		}
	}
	st.Class(klass)
	if nontrivial {
		sb := uint64(0)
		if a.Sub {
			sb = 1
		}
		st.NT(hashWords(a.X.Hi, a.X.Lo, a.Y.Hi, a.Y.Lo, sb), func() any {
			return map[string]any{"op": opname, "x": nx.String(), "y": ny.String(), "exact": sum.String(), "class": klass}
		})
	}
	return nil
})

// fullCoef draws a coefficient that cannot be scaled up (10*c > Cmax), i.e. a
// result at full precision, with emphasis on both ends of that range.
func fullCoef(t *rapid.T) *big.Int {
	lowest := new(big.Int).Add(ref.Cmax, ref.One)
	lowest.Quo(lowest, ref.Ten) // smallest c with 10c > Cmax
	switch ir(t, 0, 7, "fullKind") {
	case 0:
		return new(big.Int).Sub(ref.Cmax, bi(int64(ir(t, 0, 2, "o"))))
	case 1:
		return new(big.Int).Add(lowest, bi(int64(ir(t, 0, 2, "o"))))
	case 2:
		return new(big.Int).Add(ref.Pow10(34), bi(int64(ir(t, -2, 2, "o"))))
	case 3:
		c := genDigits(t, 35)
		if c.Cmp(ref.Cmax) > 0 {
			c.Quo(c, ref.Ten)
		}
		return c
	}
	c := genDigits(t, 34)
	if c.Cmp(lowest) < 0 {
		c.Add(c, lowest)
	}
	return c
}

// genAddPair draws operand pairs for add/sub (see DESIGN §4 "pair generators").
func genAddPair(t *rapid.T) (D, D) {
	switch ir(t, 0, 10, "pairKind") {
	case 10:
		// one operand runs along the digits of a power of two (genPow2Lead) and is the one that gets scaled up:
		// the other sits 1..45 places below with a short or arbitrary coefficient
		x := DFin(genSign(t), genPow2Lead(t), genExp(t))
		nx := x.Num()
		c := genCoef(t)
		if ir(t, 0, 1, "short") == 0 {
			c = bi(int64(ir(t, 1, 999, "small")))
		}
		y := DFin(genSign(t), c, clampExp(nx.Exp-ir(t, 1, 45, "below")))
		if rapid.Bool().Draw(t, "swap") {
			x, y = y, x
		}
		return x, y
	case 0:
		return genFinite(t), genFinite(t)
	case 1, 2:
		// exponent gap 0..45 in either direction, all alignment arms
		x := genFiniteNZ(t)
		nx := x.Num()
		gap := ir(t, -45, 45, "gap")
		return x, DFin(genSign(t), genCoef(t), clampExp(nx.Exp+gap))
	case 3, 4, 5:
		// tie / near-tie constructor
		cr := fullCoef(t)
		er := ir(t, ref.Emin+1, ref.Emax, "er")
		if ir(t, 0, 3, "erEdge") == 0 {
			er = ref.Emax - ir(t, 0, 2, "erTop")
		}
		k := ir(t, 1, 33, "k")
		if er-k < ref.Emin {
			k = er - ref.Emin
		}
		var tt *big.Int
		switch ir(t, 0, 4, "tKind") {
		case 0, 1:
			tt = new(big.Int)
		case 2:
			tt = bi(int64(ir(t, -3, 3, "tSmall")))
		default:
			lim := new(big.Int).Mul(big5, ref.Pow10(k-1))
			v := new(big.Int).SetUint64(u64(t, "tRand"))
			v.Mod(v, lim)
			if rapid.Bool().Draw(t, "tNeg") {
				v.Neg(v)
			}
			tt = v
		}
		// S = (cr*10^k + 5*10^(k-1) + t) * 10^(er-k)
		S := new(big.Int).Mul(cr, ref.Pow10(k))
		S.Add(S, new(big.Int).Mul(big5, ref.Pow10(k-1)))
		S.Add(S, tt)
		// x = (cr - a) * 10^er, a small (either sign)
		aDigits := ir(t, 0, 34-k, "aDigits")
		a := new(big.Int)
		if aDigits > 0 {
			a = genDigits(t, aDigits)
		}
		if rapid.Bool().Draw(t, "aNeg") {
			a.Neg(a)
		}
		xc := new(big.Int).Sub(cr, a)
		if xc.Sign() < 0 || xc.Cmp(ref.Cmax) > 0 {
			xc = new(big.Int).Set(cr)
		}
		Y := new(big.Int).Sub(S, new(big.Int).Mul(xc, ref.Pow10(k)))
		yneg := Y.Sign() < 0
		Y.Abs(Y)
		if Y.Cmp(ref.Cmax) > 0 {
			// fall back to a = 0
			xc = new(big.Int).Set(cr)
			Y = new(big.Int).Sub(S, new(big.Int).Mul(xc, ref.Pow10(k)))
			yneg = Y.Sign() < 0
			Y.Abs(Y)
		}
		x := DFin(false, xc, er)
		y := DFin(yneg, Y, er-k)
		if rapid.Bool().Draw(t, "flip") {
			x.Hi ^= 1 << 63
			y.Hi ^= 1 << 63
		}
		if rapid.Bool().Draw(t, "swap") {
			x, y = y, x
		}
		return x, y
	case 6:
		// near-cancellation: y = -(another encoding of x) +/- a few units
		x := genFiniteNZ(t)
		y := genCohortMember(t, x)
		ny := y.Num()
		c := new(big.Int).Add(ny.Coef, bi(int64(ir(t, -2, 2, "du"))))
		if c.Sign() < 0 || c.Cmp(ref.Cmax) > 0 {
			c = ny.Coef
		}
		return x, DFin(!ny.Neg, c, ny.Exp)
	case 7:
		// swallowed operand: gap beyond 35 up to the whole exponent range
		x := genFiniteNZ(t)
		nx := x.Num()
		var gap int
		if rapid.Bool().Draw(t, "farGap") {
			gap = ir(t, 30, 80, "gap")
		} else {
			gap = ir(t, 46, 12287, "gap")
		}
		e2 := nx.Exp - gap
		if e2 < ref.Emin {
			e2 = nx.Exp + gap
		}
		c := genCoef(t)
		if c.Sign() == 0 {
			c = bi(1)
		}
		return x, DFin(genSign(t), c, clampExp(e2))
	case 8:
		// zero operands
		if rapid.Bool().Draw(t, "bothZero") {
			return genZero(t), genZero(t)
		}
		if rapid.Bool().Draw(t, "zeroFirst") {
			return genZero(t), genFinite(t)
		}
		return genFinite(t), genZero(t)
	}
	// result near the top of the range (overflow edge)
	x := DFin(genSign(t), fullCoef(t), ref.Emax-ir(t, 0, 1, "top"))
	nx := x.Num()
	y := DFin(nx.Neg != (ir(t, 0, 3, "opp") == 0), genCoef(t), ref.Emax-ir(t, 0, 40, "ygap"))
	return x, y
}

func TestC01_AddSub(t *testing.T) {
	runRapid(t, 40000, 2400000, func(t *rapid.T) {
		x, y := genAddPair(t)
		c01.Run(t, c01Args{X: x, Y: y, Sub: rapid.Bool().Draw(t, "sub")})
	})
}
