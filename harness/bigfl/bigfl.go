// Package bigfl provides exp, log, expm1, log1p and pow on math/big.Float at a
// fixed working precision of 512 bits, as the reference for the elementary
// functions of decimal128 (which need about 116 bits). It is checked against
// algebraic identities and against a fixture of 70-digit values computed with
// mpmath (bigfl_test.go).
package bigfl

import (
	"math"
	"math/big"
)

const Prec = 512

func nf() *big.Float        { return new(big.Float).SetPrec(Prec) }
func fi(i int64) *big.Float { return nf().SetInt64(i) }

// atanhInv computes atanh(1/n) by its series.
func atanhInv(n int64) *big.Float {
	x := nf().Quo(fi(1), fi(n))
	x2 := nf().Mul(x, x)
	sum := nf().Set(x)
	term := nf().Set(x)
	for k := int64(3); ; k += 2 {
		term.Mul(term, x2)
		t := nf().Quo(term, fi(k))
		if t.Sign() == 0 || t.MantExp(nil)-sum.MantExp(nil) < -Prec-8 {
			break
		}
		sum.Add(sum, t)
	}
	return sum
}

var (
	Ln2  = func() *big.Float { return nf().Mul(fi(2), atanhInv(3)) }()
	Ln10 = func() *big.Float {
		// ln 10 = 3 ln 2 + ln 1.25, ln 1.25 = 2 atanh(1/9)
		r := nf().Mul(fi(3), Ln2)
		return r.Add(r, nf().Mul(fi(2), atanhInv(9)))
	}()
)

// Exp returns e^x for |x| < 2^30.
func Exp(x *big.Float) *big.Float {
	if x.Sign() == 0 {
		return fi(1)
	}
	xx := nf().Set(x)
	q := nf().Quo(xx, Ln2)
	qf, _ := q.Float64()
	k := int(math.Round(qf))
	r := nf().Sub(xx, nf().Mul(fi(int64(k)), Ln2))
	const s = 24
	r.SetMantExp(r, -s)
	sum := fi(1)
	term := fi(1)
	for i := int64(1); i < 400; i++ {
		term.Mul(term, r)
		term.Quo(term, fi(i))
		if term.Sign() == 0 || term.MantExp(nil) < -Prec-16 {
			break
		}
		sum.Add(sum, term)
	}
	for i := 0; i < s; i++ {
		sum.Mul(sum, sum)
	}
	return sum.SetMantExp(sum, k)
}

// Expm1 returns e^x - 1.
func Expm1(x *big.Float) *big.Float {
	if x.Sign() == 0 {
		return nf()
	}
	if x.MantExp(nil) < -40 {
		// series x + x^2/2! + ...
		sum := nf().Set(x)
		term := nf().Set(x)
		for i := int64(2); i < 400; i++ {
			term.Mul(term, x)
			term.Quo(term, fi(i))
			if term.Sign() == 0 || term.MantExp(nil)-sum.MantExp(nil) < -Prec-8 {
				break
			}
			sum.Add(sum, term)
		}
		return sum
	}
	return nf().Sub(Exp(x), fi(1))
}

// Log returns ln x for x > 0.
func Log(x *big.Float) *big.Float {
	if x.Sign() <= 0 {
		panic("bigfl.Log: domain")
	}
	m := nf()
	k := nf().Set(x).MantExp(m) // x = m * 2^k, m in [0.5, 1)
	if m.Cmp(big.NewFloat(0.7071067811865476)) < 0 {
		m.SetMantExp(m, 1)
		k--
	}
	const j = 8
	for i := 0; i < j; i++ {
		m.Sqrt(m)
	}
	z := nf().Quo(nf().Sub(m, fi(1)), nf().Add(m, fi(1)))
	z2 := nf().Mul(z, z)
	sum := nf().Set(z)
	term := nf().Set(z)
	if z.Sign() != 0 {
		for i := int64(3); ; i += 2 {
			term.Mul(term, z2)
			t := nf().Quo(term, fi(i))
			if t.Sign() == 0 || t.MantExp(nil)-sum.MantExp(nil) < -Prec-8 {
				break
			}
			sum.Add(sum, t)
		}
	}
	sum.SetMantExp(sum, 1+j)
	return sum.Add(sum, nf().Mul(fi(int64(k)), Ln2))
}

// Log1p returns ln(1+x) for x > -1.
func Log1p(x *big.Float) *big.Float {
	if x.Sign() == 0 {
		return nf()
	}
	if x.MantExp(nil) < -40 {
		// series x - x^2/2 + x^3/3 - ...
		sum := nf().Set(x)
		term := nf().Set(x)
		nx := nf().Neg(x)
		for i := int64(2); i < 400; i++ {
			term.Mul(term, nx)
			t := nf().Quo(term, fi(i))
			if t.Sign() == 0 || t.MantExp(nil)-sum.MantExp(nil) < -Prec-8 {
				break
			}
			sum.Add(sum, t)
		}
		return sum
	}
	// 1+x needs more than Prec bits to be exact only when x is below 2^-Prec of 1: not in this branch beyond 40 bits
	one := new(big.Float).SetPrec(Prec + 64).SetInt64(1)
	return Log(one.Add(one, x))
}

func Exp2(x *big.Float) *big.Float  { return Exp(nf().Mul(x, Ln2)) }
func Exp10(x *big.Float) *big.Float { return Exp(nf().Mul(x, Ln10)) }
func Log2(x *big.Float) *big.Float  { return nf().Quo(Log(x), Ln2) }
func Log10(x *big.Float) *big.Float { return nf().Quo(Log(x), Ln10) }

// Pow returns x^y for x > 0 as exp(y ln x).
func Pow(x, y *big.Float) *big.Float { return Exp(nf().Mul(y, Log(x))) }

var pow10cache = map[int]*big.Float{}

// Pow10 returns 10^n rounded to Prec bits (shared; read-only).
func Pow10(n int) *big.Float {
	if f, ok := pow10cache[n]; ok {
		return f
	}
	a := n
	if a < 0 {
		a = -a
	}
	f := nf().SetInt(new(big.Int).Exp(big.NewInt(10), big.NewInt(int64(a)), nil))
	if n < 0 {
		f = nf().Quo(fi(1), f)
	}
	if len(pow10cache) < 20000 {
		pow10cache[n] = f
	}
	return f
}

// FromDec returns (-1)^neg * coef * 10^exp rounded to Prec bits.
func FromDec(neg bool, coef *big.Int, exp int) *big.Float {
	f := nf().SetInt(coef)
	if exp > 0 {
		f.Mul(f, Pow10(exp))
	} else if exp < 0 {
		f.Quo(f, Pow10(-exp))
	}
	if neg {
		f.Neg(f)
	}
	return f
}
