package bigfl

import (
	"bufio"
	"math/big"
	"os"
	"strings"
	"testing"
)

func parseDec(t *testing.T, s string) *big.Float {
	f, _, err := big.ParseFloat(s, 10, 2048, big.ToNearestEven)
	if err != nil {
		t.Fatalf("parse %q: %v", s, err)
	}
	return f
}

func relClose(a, b *big.Float, bits int) bool {
	if b.Sign() == 0 {
		return a.Sign() == 0
	}
	d := new(big.Float).SetPrec(2048).Sub(a, b)
	d.Quo(d, b)
	return d.Sign() == 0 || d.MantExp(nil) < -bits
}

// TestFixture compares bigfl with 70-digit values computed by mpmath (tools/gen_bigfl_fixture.py).
func TestFixture(t *testing.T) {
	f, err := os.Open("fixture.txt")
	if err != nil {
		t.Fatal(err)
	}
	defer f.Close()
	sc := bufio.NewScanner(f)
	n := 0
	for sc.Scan() {
		fs := strings.Fields(sc.Text())
		if len(fs) < 3 {
			continue
		}
		want := parseDec(t, fs[len(fs)-1])
		var got *big.Float
		arg := func(i int) *big.Float { return nf().Set(parseDec(t, fs[i])) }
		switch fs[0] {
		case "exp":
			got = Exp(arg(1))
		case "expm1":
			got = Expm1(arg(1))
		case "log":
			got = Log(arg(1))
		case "log1p":
			got = Log1p(arg(1))
		case "pow":
			got = Pow(arg(1), arg(2))
		case "const":
			switch fs[1] {
			case "ln2":
				got = Ln2
			case "ln10":
				got = Ln10
			case "e":
				got = Exp(fi(1))
			}
		}
		// 69 digits ~ 229 bits; arguments are themselves rounded to 512 bits, which pow amplifies
		if !relClose(got, want, 215) {
			t.Errorf("%s: got %s want %s", sc.Text()[:60], got.Text('e', 72), want.Text('e', 72))
		}
		n++
	}
	if n < 400 {
		t.Fatalf("only %d fixture rows", n)
	}
}

func TestIdentities(t *testing.T) {
	for _, s := range []string{"0.5", "1.5", "123.456", "1e-30", "7e100", "3e-2000", "9.999999999999e5000"} {
		x := nf().Set(parseDec(t, s))
		if !relClose(Exp(Log(x)), x, 450) {
			t.Errorf("exp(log(%s)) != x", s)
		}
	}
	for k := int64(-2000); k <= 2000; k += 137 {
		p := nf().SetMantExp(fi(1), int(k))
		want := nf().Mul(fi(k), Ln2)
		if !relClose(Log(p), want, 490) && k != 0 {
			t.Errorf("log(2^%d)", k)
		}
	}
	if !relClose(Log(fi(10)), Ln10, 500) {
		t.Error("ln10")
	}
	if !relClose(Exp10(fi(3)), fi(1000), 460) || !relClose(Exp2(fi(-2)), nf().SetFloat64(0.25), 460) {
		t.Error("exp10/exp2")
	}
}
