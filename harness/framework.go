// Package harness holds the executable statements of properties C01..C20 for
// github.com/woodsbury/decimal128: one pure check function per obligation,
// rapid generators that draw its arguments, a replay entry point that bypasses
// rapid, and per-process statistics that the driver (cmd/vcheck) merges into
// the evidence files.
package harness

import (
	"encoding/binary"
	"encoding/json"
	"flag"
	"fmt"
	"hash/fnv"
	"os"
	"path/filepath"
	"runtime/debug"
	"strconv"
	"strings"
	"sync/atomic"
	"syscall"
	"testing"
	"time"

	"pgregory.net/rapid"
)

// Violation is a property violation found by a pure check function.
type Violation struct {
	Msg string
}

func violf(format string, a ...any) *Violation {
	return &Violation{Msg: fmt.Sprintf(format, a...)}
}

type checkEntry struct {
	prop, name string
	run        func(raw json.RawMessage) (*Violation, error)
}

var registry = map[string]*checkEntry{}

// Checker wraps a pure check function of argument type A.
type Checker[A any] struct {
	prop, name string
	fn         func(A) *Violation
	noHistory  bool
	histAllow  map[string]bool // scalar, string and byte-slice fields whose every value is in the check's domain
	histCustom func(A) []A     // replaces the generic siblings (checks whose fields are related to each other)
}

// HistoryFields names the non-Decimal fields of the argument struct that a
// history walk may vary as well (fields of type D and bool are always varied):
// only fields of which every value is a legitimate input of the check.
func (c *Checker[A]) HistoryFields(names ...string) *Checker[A] {
	c.histAllow = map[string]bool{}
	for _, n := range names {
		c.histAllow[n] = true
	}
	return c
}

// HistorySiblings installs a check-specific sibling function.
func (c *Checker[A]) HistorySiblings(f func(A) []A) *Checker[A] { c.histCustom = f; return c }

// NoHistory switches the history walk (history.go) off for a check whose
// argument is already a sequence or an enumeration index.
func (c *Checker[A]) NoHistory() *Checker[A] { c.noHistory = true; return c }

// Register makes fn reachable by name from replay files.
func Register[A any](prop, name string, fn func(A) *Violation) *Checker[A] {
	c := &Checker[A]{prop: prop, name: name, fn: fn}
	if _, dup := registry[name]; dup {
		panic("duplicate check " + name)
	}
	registry[name] = &checkEntry{prop: prop, name: name, run: func(raw json.RawMessage) (*Violation, error) {
		var a A
		dec := json.NewDecoder(strings.NewReader(string(raw)))
		dec.DisallowUnknownFields()
		if err := dec.Decode(&a); err != nil {
			return nil, err
		}
		return c.Eval(a), nil
	}}
	registerHistory(c)
	return c
}

// Eval runs the check; a panic escaping the code under test (or the check) is
// reported as a violation carrying the stack, so that it shrinks and replays
// like any other failure.
func (c *Checker[A]) Eval(a A) (v *Violation) {
	if crashArm(c.name, a) {
		defer crashDisarm()
	}
	inFlight.Store(&flight{start: time.Now(), fail: func(msg string) { c.writeFail(a, violf("%s", msg)) }, check: c.name})
	defer func() {
		inFlight.Store(nil)
		if r := recover(); r != nil {
			v = violf("panic: %v\n%s", r, trimStack(debug.Stack()))
		}
	}()
	return c.fn(a)
}

// ---- crash guard ---------------------------------------------------------------
//
// A panic is recovered above and shrinks like any failure. A *fatal* runtime
// error (stack overflow from unbounded recursion, "all goroutines are asleep",
// concurrent map writes, a corrupted heap) cannot be recovered: the process
// dies. So that such a death is reported with its input instead of as an
// anonymous worker failure, the arguments of the evaluation in progress are
// kept in a file-backed shared mapping under VERIF_OUT (no system call per
// evaluation; the kernel keeps the pages after the process is gone). The driver
// reads the file when a shard exits abnormally without a replay file, re-runs
// the case in a fresh process, and reports a violation only if it kills that
// process too (otherwise the death is infrastructure trouble: exit 2).
//
// Layout: 4-byte little-endian length n, then n bytes "<check name>\n<args JSON>";
// n = 0 when no evaluation is in progress.

const crashCap = 8 << 20

var (
	crashBuf   []byte
	crashDepth atomic.Int32
)

func init() {
	dir := os.Getenv("VERIF_OUT")
	if dir == "" {
		return
	}
	for _, a := range os.Args[1:] {
		// native fuzzing runs a coordinator and many worker processes in ONE directory: they would share (and
		// truncate under each other) the mapped file. The fuzzing engine reports a dying worker with its input itself.
		if strings.HasPrefix(a, "-test.fuzz") {
			return
		}
	}
	f, err := os.OpenFile(filepath.Join(dir, "inflight-case.bin"), os.O_RDWR|os.O_CREATE, 0o644)
	if err != nil {
		return
	}
	defer f.Close()
	if f.Truncate(crashCap) != nil {
		return
	}
	b, err := syscall.Mmap(int(f.Fd()), 0, crashCap, syscall.PROT_READ|syscall.PROT_WRITE, syscall.MAP_SHARED)
	if err == nil {
		crashBuf = b
	}
}

// crashArm records the outermost evaluation in progress; it reports whether
// the caller has to disarm.
func crashArm(check string, a any) bool {
	if crashBuf == nil {
		return false
	}
	if crashDepth.Add(1) != 1 {
		return true
	}
	raw, err := json.Marshal(a)
	if err != nil || 4+len(check)+1+len(raw) > len(crashBuf) {
		return true
	}
	n := copy(crashBuf[4:], check)
	crashBuf[4+n] = '\n'
	copy(crashBuf[4+n+1:], raw)
	binary.LittleEndian.PutUint32(crashBuf, uint32(n+1+len(raw)))
	return true
}

func crashDisarm() {
	if crashDepth.Add(-1) == 0 {
		binary.LittleEndian.PutUint32(crashBuf, 0)
	}
}

// ---- termination watchdog -----------------------------------------------------
//
// Every evaluation of a pure check registers itself here. A background
// goroutine (the only place the harness looks at the wall clock) aborts the
// process when one evaluation — a handful of library calls that normally take
// microseconds — has been running for hangLimit: it writes the case as a replay
// file (or, in replay mode, a "violated" result) and exits, so that a call
// that does not terminate is reported with its input instead of stalling the
// run until the driver's timeout.

type flight struct {
	start time.Time
	check string
	fail  func(msg string)
}

const hangLimit = 120 * time.Second

var (
	inFlight     atomic.Pointer[flight]
	onHangReplay func(msg string) // set by TestReplay
)

func init() {
	go func() {
		for {
			time.Sleep(2 * time.Second)
			f := inFlight.Load()
			if f == nil || time.Since(f.start) < hangLimit {
				continue
			}
			msg := "evaluation of " + f.check + " did not terminate within " + hangLimit.String() + " (a call hangs or is pathologically slow)"
			if onHangReplay != nil {
				onHangReplay(msg)
			} else {
				f.fail(msg)
			}
			dumpStats()
			os.Exit(3)
		}
	}()
}

func trimStack(b []byte) string {
	s := string(b)
	if len(s) > 3000 {
		s = s[:3000] + "…"
	}
	return s
}

// ReplayFile is the on-disk form of one concrete case.
type ReplayFile struct {
	Property string          `json:"property"`
	Check    string          `json:"check"`
	Args     json.RawMessage `json:"args"`
	Message  string          `json:"message,omitempty"`
	Note     string          `json:"note,omitempty"`
}

// Run evaluates the check inside a rapid property; on violation it writes the
// replay file (the last one written is the shrunk case, because rapid's final
// execution is the minimised one) and fails the rapid test.
func (c *Checker[A]) Run(t *rapid.T, a A) {
	if v := c.Eval(a); v != nil {
		c.writeFail(a, v)
		t.Fatalf("%s: %s", c.name, v.Msg)
	}
	if c.noHistory {
		return
	}
	// the selector is drawn for every case so that the stream of later draws does not depend on it
	sel := rapid.Uint64().Draw(t, "historySel")
	if sel%historyEvery != 0 {
		return
	}
	seq := historySeq(c, a, sel)
	if len(seq) == 0 {
		return
	}
	S(c.prop, "history-walks").Eval(1)
	h := histArgs[A]{Seq: seq}
	if m := int(sel>>8) % 8; m >= 1 && m <= 6 {
		h.Mode = m
	}
	if v := c.evalHistory(h); v != nil {
		writeFailFile(c.prop, c.name+".history", h, v)
		t.Fatalf("%s.history: %s", c.name, v.Msg)
	}
}

func (c *Checker[A]) writeFail(a A, v *Violation) { writeFailFile(c.prop, c.name, a, v) }

func writeFailFile(prop, name string, a any, v *Violation) {
	dir := os.Getenv("VERIF_OUT")
	if dir == "" {
		return
	}
	raw, err := json.Marshal(a)
	if err != nil {
		raw = []byte(`"unmarshalable"`)
	}
	rf := ReplayFile{Property: prop, Check: name, Args: raw, Message: v.Msg}
	b, _ := json.MarshalIndent(rf, "", " ")
	_ = os.WriteFile(filepath.Join(dir, "fail-"+name+".json"), b, 0o644)
}

// ---- tiers, seeds, shards ---------------------------------------------------

type runCfg struct {
	tier   string
	seed   uint64
	shard  int
	shards int
	scale  float64
}

var cfg = func() runCfg {
	c := runCfg{tier: "quick", seed: 1, shards: 1, scale: 1}
	if v := os.Getenv("VERIF_TIER"); v == "thorough" {
		c.tier = v
	}
	if v, err := strconv.ParseUint(os.Getenv("VERIF_SEED"), 10, 64); err == nil {
		c.seed = v
	}
	if v, err := strconv.Atoi(os.Getenv("VERIF_SHARD")); err == nil {
		c.shard = v
	}
	if v, err := strconv.Atoi(os.Getenv("VERIF_SHARDS")); err == nil && v > 0 {
		c.shards = v
	}
	if v, err := strconv.ParseFloat(os.Getenv("VERIF_SCALE"), 64); err == nil && v > 0 {
		c.scale = v
	}
	return c
}()

const (
	quickMult    = 4
	thoroughMult = 8
)

func splitmix(x uint64) uint64 {
	x += 0x9e3779b97f4a7c15
	x = (x ^ (x >> 30)) * 0xbf58476d1ce4e5b9
	x = (x ^ (x >> 27)) * 0x94d049bb133111eb
	return x ^ (x >> 31)
}

func strHash(s string) uint64 {
	h := fnv.New64a()
	h.Write([]byte(s))
	return h.Sum64()
}

// cases returns the number of rapid checks this process should run for a test
// whose whole-run budgets are quickN / thoroughN.
func cases(quickN, thoroughN int) int {
	// the per-test budgets written next to each test are base values; the tier
	// multipliers bring the quick tier to roughly 5-20 s and the thorough tier
	// to a few minutes per property on 16 cores
	n := quickN * quickMult
	if cfg.tier == "thorough" {
		n = thoroughN * thoroughMult
	}
	n = int(float64(n) * cfg.scale)
	n = (n + cfg.shards - 1) / cfg.shards
	if n < 1 {
		n = 1
	}
	return n
}

// runRapid runs prop under rapid with a case count and a PRNG value that are
// pure functions of (tier, VERIF_SEED, shard, test name).
func runRapid(t *testing.T, quickN, thoroughN int, prop func(*rapid.T)) {
	t.Helper()
	n := cases(quickN, thoroughN)
	s := splitmix(splitmix(cfg.seed)*31 + uint64(cfg.shard)*0x100000001b3 + strHash(t.Name()))
	if s == 0 {
		s = 1
	}
	must(flag.Set("rapid.checks", strconv.Itoa(n)))
	must(flag.Set("rapid.seed", strconv.FormatUint(s, 10)))
	must(flag.Set("rapid.nofailfile", "true"))
	must(flag.Set("rapid.shrinktime", "20s"))
	rapid.Check(t, prop)
}

func must(err error) {
	if err != nil {
		panic(err)
	}
}
