package ref

import (
	"math/big"
	"strings"
)

// Numeral is the exact reading of a printed decimal numeral.
type Numeral struct {
	Class    Class
	Neg      bool
	Sign     byte   // '+', '-' or 0 when no sign was written
	IntPart  string // digits before the point
	FracPart string // digits after the point ("" when no point)
	HasPoint bool
	HasExp   bool
	ExpChar  byte
	ExpSign  byte
	ExpPart  string // exponent digits as written
	Coef     *big.Int
	Exp      int // value = Coef * 10^Exp
}

func isDigits(s string) bool {
	if s == "" {
		return false
	}
	for i := 0; i < len(s); i++ {
		if s[i] < '0' || s[i] > '9' {
			return false
		}
	}
	return true
}

// EvalNumeral reads a plain numeral: [+-] digits [. digits] [(e|E) [+-] digits],
// with at least one digit before or after the point, or NaN / Inf / Infinity
// (exact case as printed by the package: "NaN", "Inf", "+Inf", "-Inf").
// It is deliberately independent of the package's parser. ok is false for
// anything else. Exponents are limited to 9 digits of magnitude.
func EvalNumeral(s string) (n Numeral, ok bool) {
	t := s
	if t != "" && (t[0] == '+' || t[0] == '-') {
		n.Sign = t[0]
		n.Neg = t[0] == '-'
		t = t[1:]
	}
	switch t {
	case "NaN":
		n.Class = NaN
		return n, true
	case "Inf", "Infinity":
		n.Class = Inf
		return n, true
	}
	mant := t
	if i := strings.IndexAny(t, "eE"); i >= 0 {
		n.HasExp = true
		n.ExpChar = t[i]
		mant = t[:i]
		ex := t[i+1:]
		if ex != "" && (ex[0] == '+' || ex[0] == '-') {
			n.ExpSign = ex[0]
			ex = ex[1:]
		}
		if !isDigits(ex) {
			return n, false
		}
		n.ExpPart = ex
		e := strings.TrimLeft(ex, "0")
		if len(e) > 9 {
			return n, false
		}
		v := 0
		for i := 0; i < len(e); i++ {
			v = v*10 + int(e[i]-'0')
		}
		if n.ExpSign == '-' {
			v = -v
		}
		n.Exp = v
	}
	if i := strings.IndexByte(mant, '.'); i >= 0 {
		n.HasPoint = true
		n.IntPart = mant[:i]
		n.FracPart = mant[i+1:]
	} else {
		n.IntPart = mant
	}
	if n.IntPart == "" && n.FracPart == "" {
		return n, false
	}
	if n.IntPart != "" && !isDigits(n.IntPart) {
		return n, false
	}
	if n.FracPart != "" && !isDigits(n.FracPart) {
		return n, false
	}
	digits := n.IntPart + n.FracPart
	n.Coef, _ = new(big.Int).SetString(digits, 10)
	n.Exp -= len(n.FracPart)
	n.Class = Finite
	return n, true
}

// X returns the exact value of a finite numeral.
func (n Numeral) X() X { return X{Neg: n.Neg, Num: n.Coef, Den: One, Exp: n.Exp} }

// Denotes reports whether the numeral denotes exactly the decoded Decimal d
// (class, sign incl. the sign of zero, and value).
func (n Numeral) Denotes(d Num) bool {
	if n.Class != d.Class {
		return false
	}
	if n.Class == NaN {
		return true
	}
	if n.Neg != d.Neg {
		return false
	}
	if n.Class == Inf {
		return true
	}
	if n.Coef.Sign() == 0 || d.Coef.Sign() == 0 {
		return n.Coef.Sign() == d.Coef.Sign()
	}
	return CmpAbsX(n.X(), XOf(d)) == 0
}
