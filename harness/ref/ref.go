// Package ref is the exact reference model used by every check: an independent
// BID codec, exact values as integer fractions times a power of ten, and the
// single rounding function RoundX that maps an exact value to the member of the
// decimal128 format selected by a rounding mode. It does not use any internal
// of the package under test; it reaches Decimal values only through their memory
// image (two uint64 words) and the public MarshalBinary/UnmarshalBinary pair is
// *not* used for operand construction.
package ref

import (
	"fmt"
	"math/big"
	"unsafe"

	d128 "github.com/woodsbury/decimal128"
)

const (
	Emin = -6176
	Emax = 6111
	Bias = 6176
)

var (
	Cmax, _ = new(big.Int).SetString("12980742146337069071326240823050239", 10)
	Ten     = big.NewInt(10)
	One     = big.NewInt(1)
	Two     = big.NewInt(2)
	Zero    = big.NewInt(0)
)

type Class int

const (
	Finite Class = iota
	Inf
	NaN
)

// Num is a decoded Decimal.
type Num struct {
	Class Class
	Neg   bool
	Coef  *big.Int
	Exp   int
}

func (n Num) String() string {
	s := ""
	if n.Neg {
		s = "-"
	}
	switch n.Class {
	case Inf:
		return s + "Inf"
	case NaN:
		return s + "NaN"
	}
	return fmt.Sprintf("%s%se%d", s, n.Coef, n.Exp)
}

func (n Num) IsZero() bool { return n.Class == Finite && n.Coef.Sign() == 0 }

var pow10cache []*big.Int

const pow10CacheMax = 13000

// Pow10 returns 10^n (n >= 0). Values up to 10^13000 are shared and must be
// treated as read-only; larger ones are computed on demand. Not safe for
// concurrent growth; harness processes are single-threaded where it is used.
func Pow10(n int) *big.Int {
	if n < 0 || n > 400000 {
		panic(fmt.Sprintf("harness bug: Pow10(%d)", n))
	}
	if n > pow10CacheMax {
		return new(big.Int).Exp(Ten, big.NewInt(int64(n)), nil)
	}
	for len(pow10cache) <= n {
		if len(pow10cache) == 0 {
			pow10cache = append(pow10cache, big.NewInt(1))
			continue
		}
		pow10cache = append(pow10cache, new(big.Int).Mul(pow10cache[len(pow10cache)-1], Ten))
	}
	return pow10cache[n]
}

func init() { Pow10(pow10CacheMax) }

// ---- memory image ---------------------------------------------------------

// loIndex is the index of the low word in the two-word memory image of a
// Decimal, detected at start-up from the value 1 (coefficient 1 lives in the
// low word of every BID layout).
var loIndex = func() int {
	if unsafe.Sizeof(d128.Decimal{}) != 16 {
		panic("ref: Decimal is not 16 bytes; harness needs adapting")
	}
	d := d128.New(1, 0)
	w := *(*[2]uint64)(unsafe.Pointer(&d))
	switch {
	case w[0] == 1 && w[1] != 1:
		return 0
	case w[1] == 1 && w[0] != 1:
		return 1
	}
	panic("ref: cannot detect Decimal word order")
}()

// Bits returns the 128-bit pattern of d as (hi, lo).
func Bits(d d128.Decimal) (hi, lo uint64) {
	w := *(*[2]uint64)(unsafe.Pointer(&d))
	return w[1-loIndex], w[loIndex]
}

// FromBits builds the Decimal with the given 128-bit pattern.
func FromBits(hi, lo uint64) d128.Decimal {
	var w [2]uint64
	w[loIndex] = lo
	w[1-loIndex] = hi
	return *(*d128.Decimal)(unsafe.Pointer(&w))
}

// ---- BID codec --------------------------------------------------------------

// DecodeBits is the independent BID decoder (IEEE 754-2008 decimal128, binary
// integer significand), extended as the package documents: every pattern that
// is not Inf/NaN is a finite value, coefficients up to Cmax are meaningful.
func DecodeBits(hi, lo uint64) Num {
	neg := hi>>63 == 1
	g := (hi >> 58) & 0x1f
	if g == 31 {
		return Num{Class: NaN, Neg: neg}
	}
	if g == 30 {
		return Num{Class: Inf, Neg: neg}
	}
	var e uint64
	c := new(big.Int)
	if (hi>>61)&3 == 3 {
		e = (hi >> 47) & 0x3fff
		top := hi&(1<<47-1) | 1<<49 // implicit 100 prefix on bits 113..111
		c.SetUint64(top)
	} else {
		e = (hi >> 49) & 0x3fff
		c.SetUint64(hi & (1<<49 - 1))
	}
	c.Lsh(c, 64)
	c.Or(c, new(big.Int).SetUint64(lo))
	return Num{Class: Finite, Neg: neg, Coef: c, Exp: int(e) - Bias}
}

func Decode(d d128.Decimal) Num { return DecodeBits(Bits(d)) }

// EncodeBits is the independent BID encoder for a finite value.
func EncodeBits(neg bool, coef *big.Int, exp int) (hi, lo uint64) {
	if coef.Sign() < 0 || coef.Cmp(Cmax) > 0 || exp < Emin || exp > Emax {
		panic(fmt.Sprintf("Encode out of range %s e%d", coef, exp))
	}
	lo = new(big.Int).And(coef, new(big.Int).SetUint64(^uint64(0))).Uint64()
	top := new(big.Int).Rsh(coef, 64).Uint64()
	be := uint64(exp + Bias)
	if coef.BitLen() > 113 {
		hi = 3<<61 | be<<47 | top&(1<<47-1)
	} else {
		hi = be<<49 | top
	}
	if neg {
		hi |= 1 << 63
	}
	return
}

func Encode(neg bool, coef *big.Int, exp int) d128.Decimal {
	return FromBits(EncodeBits(neg, coef, exp))
}

func EncodeNum(n Num) d128.Decimal {
	switch n.Class {
	case Inf:
		if n.Neg {
			return FromBits(0xf800_0000_0000_0000, 0)
		}
		return FromBits(0x7800_0000_0000_0000, 0)
	case NaN:
		return FromBits(0x7c00_0000_0000_0000, 0)
	}
	return Encode(n.Neg, n.Coef, n.Exp)
}

// ---- exact values -----------------------------------------------------------

// X is the exact value (-1)^Neg * Num/Den * 10^Exp with Num >= 0, Den > 0.
type X struct {
	Neg      bool
	Num, Den *big.Int
	Exp      int
}

func (x X) String() string {
	if x.Num == nil {
		return "0"
	}
	s := ""
	if x.Neg {
		s = "-"
	}
	if x.Den.Cmp(One) == 0 {
		return fmt.Sprintf("%s%se%d", s, x.Num, x.Exp)
	}
	return fmt.Sprintf("%s(%s/%s)e%d", s, x.Num, x.Den, x.Exp)
}

func XOf(n Num) X { return X{Neg: n.Neg, Num: n.Coef, Den: One, Exp: n.Exp} }

func (x X) IsZero() bool { return x.Num.Sign() == 0 }

// Rat converts to a big.Rat (only for moderate exponents).
func (x X) Rat() *big.Rat {
	r := new(big.Rat)
	if x.Exp >= 0 {
		r.SetFrac(new(big.Int).Mul(x.Num, Pow10(x.Exp)), x.Den)
	} else {
		r.SetFrac(x.Num, new(big.Int).Mul(x.Den, Pow10(-x.Exp)))
	}
	if x.Neg {
		r.Neg(r)
	}
	return r
}

// fdiv returns floor(num/den / 10^shift), how the remainder compares with one
// half (-1 below, 0 tie, +1 above) and whether the division is exact.
func fdiv(num, den *big.Int, shift int) (q *big.Int, half int, exact bool) {
	n, dd := num, den
	if shift > 0 {
		dd = new(big.Int).Mul(den, Pow10(shift))
	} else if shift < 0 {
		n = new(big.Int).Mul(num, Pow10(-shift))
	}
	q, rem := new(big.Int).QuoRem(n, dd, new(big.Int))
	exact = rem.Sign() == 0
	rem.Lsh(rem, 1)
	half = rem.Cmp(dd)
	return
}

// Quantum returns the exponent q of the format at |x|: the smallest q >= Emin
// with floor(|x|/10^q) <= Cmax (not capped at Emax).
func Quantum(x X) int {
	if x.Num.Sign() == 0 {
		panic("Quantum of zero")
	}
	est := int(float64(x.Num.BitLen()-x.Den.BitLen()) * 0.30103)
	e := x.Exp + est - 37
	if e < Emin-1 {
		e = Emin - 1
	}
	steps := 0
	for {
		q, _, _ := fdiv(x.Num, x.Den, e-x.Exp)
		if q.Cmp(Cmax) <= 0 {
			break
		}
		e++
		steps++
	}
	if steps == 0 {
		// the first guess already fitted: walk down to the smallest fitting exponent
		for e > Emin {
			q1, _, _ := fdiv(x.Num, x.Den, e-1-x.Exp)
			if q1.Cmp(Cmax) > 0 {
				break
			}
			e--
		}
	}
	if e < Emin {
		e = Emin
	}
	return e
}

// BelowFlush reports |x| < 10^(Emin-1), the magnitude below which the package
// (and properties C02/C05/C08/C11) give a signed zero in every mode.
func BelowFlush(x X) bool {
	q, _, _ := fdiv(x.Num, x.Den, Emin-1-x.Exp)
	return q.Sign() == 0
}

// RoundX rounds the non-zero exact value x into the format under mode. With
// flush set, magnitudes below 10^(Emin-1) give a signed zero in every mode.
func RoundX(x X, mode d128.RoundingMode, flush bool) Num {
	if x.Num.Sign() == 0 {
		panic("RoundX zero")
	}
	if flush && BelowFlush(x) {
		return Num{Class: Finite, Neg: x.Neg, Coef: new(big.Int), Exp: Emin}
	}
	e := Quantum(x)
	return roundAt(x, e, mode)
}

// RoundAt rounds x to a multiple of 10^e (e fixed by the caller), then
// renormalises if the coefficient exceeds Cmax. Used for quantisation (C08).
func roundAt(x X, e int, mode d128.RoundingMode) Num {
	q, half, exact := fdiv(x.Num, x.Den, e-x.Exp)
	if !exact && RoundsUp(mode, x.Neg, half, q.Bit(0) == 1) {
		q.Add(q, One)
		if q.Cmp(Cmax) > 0 {
			// Cmax+1 is a multiple of ten
			q.Quo(q, Ten)
			e++
		}
	}
	if e > Emax {
		return Num{Class: Inf, Neg: x.Neg}
	}
	return Num{Class: Finite, Neg: x.Neg, Coef: q, Exp: e}
}

// RoundsUp is the rounding decision for an inexact value: magnitude is
// incremented iff it returns true. half: -1/0/+1 for discarded part below, at,
// above one half; odd: parity of the kept integer.
func RoundsUp(mode d128.RoundingMode, neg bool, half int, odd bool) bool {
	switch mode {
	case d128.ToNearestEven:
		return half > 0 || (half == 0 && odd)
	case d128.ToNearestAway:
		return half >= 0
	case d128.ToZero:
		return false
	case d128.AwayFromZero:
		return true
	case d128.ToNegativeInf:
		return neg
	case d128.ToPositiveInf:
		return !neg
	}
	panic("bad mode")
}

// IntDiv returns floor(|x|) style quantities: floor(|x| / 10^e) with half/exact.
func IntDiv(x X, e int) (q *big.Int, half int, exact bool) {
	return fdiv(x.Num, x.Den, e-x.Exp)
}

// AddX is the exact sum of two finite Nums; zero reports exact cancellation
// (or both zero).
func AddX(a, b Num) (x X, zero bool) {
	e := a.Exp
	if b.Exp < e {
		e = b.Exp
	}
	ca := new(big.Int).Mul(a.Coef, Pow10(a.Exp-e))
	cb := new(big.Int).Mul(b.Coef, Pow10(b.Exp-e))
	if a.Neg {
		ca.Neg(ca)
	}
	if b.Neg {
		cb.Neg(cb)
	}
	ca.Add(ca, cb)
	if ca.Sign() == 0 {
		return X{}, true
	}
	neg := ca.Sign() < 0
	ca.Abs(ca)
	return X{Neg: neg, Num: ca, Den: One, Exp: e}, false
}

func NegNum(a Num) Num { a.Neg = !a.Neg; return a }

func MulX(a, b Num) X {
	return X{Neg: a.Neg != b.Neg, Num: new(big.Int).Mul(a.Coef, b.Coef), Den: One, Exp: a.Exp + b.Exp}
}

func QuoX(a, b Num) X {
	return X{Neg: a.Neg != b.Neg, Num: a.Coef, Den: b.Coef, Exp: a.Exp - b.Exp}
}

// CmpX compares two exact values (sign-aware); zeros compare equal.
func CmpX(a, b X) int {
	az, bz := a.Num.Sign() == 0, b.Num.Sign() == 0
	switch {
	case az && bz:
		return 0
	case az:
		if b.Neg {
			return 1
		}
		return -1
	case bz:
		if a.Neg {
			return -1
		}
		return 1
	}
	if a.Neg != b.Neg {
		if a.Neg {
			return -1
		}
		return 1
	}
	c := CmpAbsX(a, b)
	if a.Neg {
		return -c
	}
	return c
}

// CmpAbsX compares |a| with |b|.
func CmpAbsX(a, b X) int {
	if a.Num.Sign() == 0 || b.Num.Sign() == 0 {
		return a.Num.Sign() - b.Num.Sign()
	}
	// a.Num/a.Den*10^a.Exp ? b.Num/b.Den*10^b.Exp
	// quick magnitude rejection to avoid 12k-digit multiplications
	la := float64(a.Num.BitLen()-a.Den.BitLen())*0.30103 + float64(a.Exp)
	lb := float64(b.Num.BitLen()-b.Den.BitLen())*0.30103 + float64(b.Exp)
	if la-lb > 2 {
		return 1
	}
	if lb-la > 2 {
		return -1
	}
	l := new(big.Int).Mul(a.Num, b.Den)
	r := new(big.Int).Mul(b.Num, a.Den)
	if a.Exp > b.Exp {
		l.Mul(l, Pow10(a.Exp-b.Exp))
	} else if b.Exp > a.Exp {
		r.Mul(r, Pow10(b.Exp-a.Exp))
	}
	return l.Cmp(r)
}

// CmpNum compares the exact values of finite Nums.
func CmpNum(a, b Num) int { return CmpX(XOf(a), XOf(b)) }

// SameVal: same class, sign and numeric value (cohort-insensitive; any NaN
// equals any NaN).
func SameVal(a, b Num) bool {
	if a.Class != b.Class {
		return false
	}
	if a.Class == NaN {
		return true
	}
	if a.Neg != b.Neg {
		return false
	}
	if a.Class == Inf {
		return true
	}
	if a.Coef.Sign() == 0 || b.Coef.Sign() == 0 {
		return a.Coef.Sign() == b.Coef.Sign()
	}
	return CmpAbsX(XOf(a), XOf(b)) == 0
}

// EqualsX reports whether the finite Num n denotes exactly x (sign included for
// non-zero values).
func EqualsX(n Num, x X) bool {
	if n.Class != Finite {
		return false
	}
	if x.Num.Sign() == 0 {
		return n.Coef.Sign() == 0
	}
	if n.Coef.Sign() == 0 || n.Neg != x.Neg {
		return false
	}
	return CmpAbsX(XOf(n), x) == 0
}

var Modes = []d128.RoundingMode{d128.ToNearestEven, d128.ToNearestAway, d128.ToZero, d128.AwayFromZero, d128.ToNegativeInf, d128.ToPositiveInf}

// DecLen is the number of decimal digits of x (x > 0), 0 for x == 0.
func DecLen(x *big.Int) int {
	if x.Sign() == 0 {
		return 0
	}
	// 30103/100000 approximation then fix-up
	n := int(float64(x.BitLen()-1)*0.30102999566398) + 1
	if n < 1 {
		n = 1
	}
	for Pow10(n).Cmp(x) <= 0 {
		n++
	}
	for n > 1 && Pow10(n-1).Cmp(x) > 0 {
		n--
	}
	return n
}

// TrailingZeros returns the number of trailing decimal zeros of x > 0.
func TrailingZeros(x *big.Int) int {
	if x.Sign() == 0 {
		return 0
	}
	n := 0
	t := new(big.Int).Set(x)
	r := new(big.Int)
	for {
		t.QuoRem(t, Ten, r)
		if r.Sign() != 0 {
			return n
		}
		n++
	}
}
