package harness

import (
	"math"
	"math/big"
	"testing"

	d128 "github.com/woodsbury/decimal128"
	"pgregory.net/rapid"

	"verif/harness/ref"
)

// C10 — integer and rational conversions are exact, truncating or saturating.

// ---- machine integers -> Decimal -------------------------------------------

type c10FromArgs struct {
	I int64
	U uint64
}

var c10from = Register("C10", "C10.fromint", func(a c10FromArgs) *Violation {
	st := S("C10", "fromint")
	st.Eval(1)
	chk := func(name string, got d128.Decimal, want *big.Int) *Violation {
		g := ref.Decode(got)
		if g.Class != ref.Finite {
			return violf("%s(%s) = %s", name, want, g)
		}
		if want.Sign() == 0 {
			if !g.IsZero() || g.Neg {
				return violf("%s(0) = %s, want +0", name, g)
			}
			return nil
		}
		if !ref.EqualsX(g, ref.X{Neg: want.Sign() < 0, Num: new(big.Int).Abs(want), Den: ref.One}) {
			return violf("%s(%s) = %s", name, want, g)
		}
		return nil
	}
	if v := chk("FromInt64", d128.FromInt64(a.I), big.NewInt(a.I)); v != nil {
		return v
	}
	for _, c := range []struct {
		name string
		call func() d128.Decimal
	}{
		{"FromInt64", func() d128.Decimal { return d128.FromInt64(a.I) }},
		{"FromInt32", func() d128.Decimal { return d128.FromInt32(int32(a.I)) }},
		{"FromUint64", func() d128.Decimal { return d128.FromUint64(a.U) }},
		{"FromUint32", func() d128.Decimal { return d128.FromUint32(uint32(a.U)) }},
	} {
		if v := exactInAllModes(c.name+" of a machine integer", c.call(), c.call); v != nil {
			return v
		}
	}
	if v := chk("FromInt32", d128.FromInt32(int32(a.I)), big.NewInt(int64(int32(a.I)))); v != nil {
		return v
	}
	if v := chk("FromUint64", d128.FromUint64(a.U), new(big.Int).SetUint64(a.U)); v != nil {
		return v
	}
	if v := chk("FromUint32", d128.FromUint32(uint32(a.U)), new(big.Int).SetUint64(uint64(uint32(a.U)))); v != nil {
		return v
	}
	st.NT(hashWords(uint64(a.I), a.U), func() any { return map[string]any{"int64": a.I, "uint64": a.U} })
	return nil
})

// ---- big.Int -> Decimal -----------------------------------------------------

type c10BigArgs struct {
	I string // decimal big.Int
}

var c10big = Register("C10", "C10.frombig", func(a c10BigArgs) *Violation {
	st := S("C10", "frombig")
	st.Eval(1)
	i, ok := new(big.Int).SetString(a.I, 10)
	if !ok {
		return nil
	}
	keep := new(big.Int).Set(i)
	primedUnderAnotherMode(hashString(a.I), func() { _ = d128.FromInt(i) })
	got := ref.Decode(d128.FromInt(i))
	if i.Cmp(keep) != 0 {
		return violf("FromInt modified its argument")
	}
	if i.Sign() == 0 {
		if !got.IsZero() || got.Neg {
			return violf("FromInt(0) = %s", got)
		}
		return nil
	}
	x := ref.X{Neg: i.Sign() < 0, Num: new(big.Int).Abs(i), Den: ref.One}
	want := ref.RoundX(x, d128.ToNearestEven, false)
	if !ref.SameVal(got, want) {
		return violf("FromInt(%s) = %s, want %s", abbr(a.I), got, want)
	}
	klass, _ := inexactClass(x)
	if klass == "exact" && want.Class == ref.Finite {
		if v := exactInAllModes("FromInt("+abbr(a.I)+")", d128.FromInt(i), func() d128.Decimal { return d128.FromInt(i) }); v != nil {
			return v
		}
	}
	bl := i.BitLen()
	switch {
	case want.Class == ref.Inf:
		klass = "overflow"
	case bl > 256:
		klass += "/>256bit"
	case bl > 128:
		klass += "/129-256bit"
	default:
		klass += "/<=128bit"
	}
	st.Class(klass)
	if bl > 113 {
		st.NT(hashString(a.I), func() any { return map[string]any{"i": abbr(a.I), "bits": bl, "class": klass} })
	}
	return nil
})

// ---- Decimal -> integers ----------------------------------------------------

type c10ToArgs struct {
	V D
}

var (
	minI64 = big.NewInt(math.MinInt64)
	maxI64 = big.NewInt(math.MaxInt64)
	minI32 = big.NewInt(math.MinInt32)
	maxI32 = big.NewInt(math.MaxInt32)
	maxU64 = new(big.Int).SetUint64(math.MaxUint64)
	maxU32 = big.NewInt(math.MaxUint32)
)

// truncInt returns trunc(n) for finite n, or nil with the sign of the huge
// magnitude when |n| >= 10^40 (beyond every machine type; avoids 6000-digit
// integers in the per-type checks).
func truncInt(n ref.Num) *big.Int {
	if n.IsZero() {
		return new(big.Int)
	}
	var t *big.Int
	if n.Exp >= 0 {
		t = new(big.Int).Mul(n.Coef, ref.Pow10(n.Exp))
	} else if -n.Exp > 40 {
		t = new(big.Int)
	} else {
		t = new(big.Int).Quo(n.Coef, ref.Pow10(-n.Exp))
	}
	if n.Neg {
		t.Neg(t)
	}
	return t
}

var c10to = Register("C10", "C10.toint", func(a c10ToArgs) *Violation {
	st := S("C10", "toint")
	st.Eval(1)
	d := a.V.Dec()
	n := a.V.Num()
	if n.Class == ref.NaN {
		return nil // documented panic: C20
	}
	if n.Class == ref.Inf {
		i64, ok1 := d.Int64()
		i32, ok2 := d.Int32()
		u64, ok3 := d.Uint64()
		u32, ok4 := d.Uint32()
		if ok1 || ok2 || ok3 || ok4 {
			return violf("%s converts to a machine integer with ok=true", n)
		}
		if n.Neg && (i64 != math.MinInt64 || i32 != math.MinInt32 || u64 != 0 || u32 != 0) ||
			!n.Neg && (i64 != math.MaxInt64 || i32 != math.MaxInt32 || u64 != math.MaxUint64 || u32 != math.MaxUint32) {
			return violf("%s saturates to (%d, %d, %d, %d)", n, i64, i32, u64, u32)
		}
		st.Class("inf")
		return nil
	}
	t := truncInt(n)
	// Int: nil receiver and a receiver pre-loaded with an unrelated value
	if gi := d.Int(nil); gi.Cmp(t) != 0 {
		return violf("Int(%s) = %s, want %s", n, abbr(gi.String()), abbr(t.String()))
	}
	pre := big.NewInt(424242)
	if gi := d.Int(pre); gi.Cmp(t) != 0 {
		return violf("Int(%s) with a pre-loaded receiver (424242) = %s, want %s", n, abbr(gi.String()), abbr(t.String()))
	} else if gi != pre {
		return violf("Int(%s) did not return the supplied receiver", n)
	}
	type res struct {
		name     string
		got      *big.Int
		ok       bool
		min, max *big.Int
	}
	i64, ok1 := d.Int64()
	i32, ok2 := d.Int32()
	u64, ok3 := d.Uint64()
	u32, ok4 := d.Uint32()
	for _, r := range []res{
		{"Int64", big.NewInt(i64), ok1, minI64, maxI64},
		{"Int32", big.NewInt(int64(i32)), ok2, minI32, maxI32},
		{"Uint64", new(big.Int).SetUint64(u64), ok3, new(big.Int), maxU64},
		{"Uint32", new(big.Int).SetUint64(uint64(u32)), ok4, new(big.Int), maxU32},
	} {
		fits := t.Cmp(r.min) >= 0 && t.Cmp(r.max) <= 0
		want := t
		if !fits {
			want = r.max
			if t.Sign() < 0 {
				want = r.min
			}
		}
		if knownActive("F5-unsigned-negative-fraction") && r.min.Sign() == 0 && n.Neg && t.Sign() == 0 {
			st.Exclude("F5-unsigned-negative-fraction")
			continue
		}
		if r.ok != fits || r.got.Cmp(want) != 0 {
			return violf("%s(%s) = (%s, %v), want (%s, %v)", r.name, n, r.got, r.ok, want, fits)
		}
	}
	near := false
	for _, b := range []*big.Int{minI64, maxI64, minI32, maxI32, maxU64, maxU32, new(big.Int)} {
		df := new(big.Int).Sub(t, b)
		if df.Abs(df).Cmp(big.NewInt(1000)) <= 0 {
			near = true
		}
	}
	switch {
	case near:
		st.Class("near-a-type-bound")
	case t.BitLen() > 128:
		st.Class(">=2^128")
	case n.Exp < 0 && !n.IsZero():
		st.Class("non-integer-or-scaled")
	default:
		st.Class("plain")
	}
	if n.Neg && t.Sign() == 0 {
		st.Class("negative-with-zero-integer-part")
	}
	if near || t.BitLen() > 128 || (n.Exp < 0 && !n.IsZero()) {
		st.NT(hashWords(a.V.Hi, a.V.Lo), func() any { return map[string]any{"d": n.String(), "trunc": abbr(t.String())} })
	}
	return nil
})

// ---- rationals --------------------------------------------------------------

type c10RatArgs struct {
	V D
}

var c10rat = Register("C10", "C10.rat", func(a c10RatArgs) *Violation {
	st := S("C10", "rat")
	st.Eval(1)
	d := a.V.Dec()
	n := a.V.Num()
	if n.Class != ref.Finite {
		return nil
	}
	r := d.Rat(nil)
	want := ref.XOf(n).Rat()
	if r.Cmp(want) != 0 {
		return violf("Rat(%s) = %s", n, abbr(r.String()))
	}
	pre := big.NewRat(355, 113)
	if r2 := d.Rat(pre); r2.Cmp(want) != 0 || r2 != pre {
		return violf("Rat(%s) with a pre-loaded receiver = %s", n, abbr(r2.String()))
	}
	if n.IsZero() {
		st.Class("zero")
		return nil
	}
	// FromRat(d.Rat()) is Equal to d
	inF14 := ref.RoundX(ref.X{Num: new(big.Int).Abs(r.Num()), Den: ref.One}, d128.ToNearestEven, false).Class == ref.Inf ||
		ref.RoundX(ref.X{Num: r.Denom(), Den: ref.One}, d128.ToNearestEven, false).Class == ref.Inf
	if inF14 && knownActive("F14-fromrat-huge-terms") {
		st.Exclude("F14-fromrat-huge-terms")
		return nil
	}
	keepN, keepD := new(big.Int).Set(r.Num()), new(big.Int).Set(r.Denom())
	back := d128.FromRat(r)
	if r.Num().Cmp(keepN) != 0 || r.Denom().Cmp(keepD) != 0 {
		return violf("FromRat modified its argument")
	}
	if !back.Equal(d) || back.Signbit() != d.Signbit() {
		return violf("FromRat(Rat(%s)) = %s", n, ref.Decode(back))
	}
	if v := exactInAllModes("FromRat(Rat("+n.String()+"))", back, func() d128.Decimal { return d128.FromRat(r) }); v != nil {
		return v
	}
	if inF14 {
		st.Class("numerator-or-denominator-beyond-1e6145")
	}
	st.NT(hashWords(a.V.Hi, a.V.Lo), func() any { return map[string]any{"d": n.String()} })
	return nil
})

type c10FromRatArgs struct {
	Num, Den string
}

var c10fromrat = Register("C10", "C10.fromrat", func(a c10FromRatArgs) *Violation {
	st := S("C10", "fromrat")
	st.Eval(1)
	num, ok1 := new(big.Int).SetString(a.Num, 10)
	den, ok2 := new(big.Int).SetString(a.Den, 10)
	if !ok1 || !ok2 || den.Sign() == 0 {
		return nil
	}
	r := new(big.Rat).SetFrac(num, den) // normalises sign and common factors, as any caller's Rat is
	primedUnderAnotherMode(hashString(a.Num)+hashString(a.Den), func() { _ = d128.FromRat(r) })
	got := ref.Decode(d128.FromRat(r))
	if r.Sign() == 0 {
		if !got.IsZero() {
			return violf("FromRat(0) = %s", got)
		}
		return nil
	}
	rn, rd := new(big.Int).Abs(r.Num()), r.Denom()
	x := ref.X{Neg: r.Sign() < 0, Num: rn, Den: rd}
	small := ref.DecLen(rn) <= 34 && ref.DecLen(rd) <= 34
	if small {
		want := ref.RoundX(x, d128.ToNearestEven, true)
		if !ref.SameVal(got, want) {
			return violf("FromRat(%s/%s) = %s, want %s", rn, rd, got, want)
		}
		k, _ := inexactClass(x)
		if k == "exact" {
			// the correctly rounded quotient of a representable value is that value, whatever DefaultRoundingMode is
			if v := exactInAllModes("FromRat("+rn.String()+"/"+rd.String()+")", d128.FromRat(r), func() d128.Decimal { return d128.FromRat(r) }); v != nil {
				return v
			}
		}
		st.Class("<=34digits/" + k)
	} else {
		hugeTerm := ref.RoundX(ref.X{Num: rn, Den: ref.One}, d128.ToNearestEven, false).Class == ref.Inf ||
			ref.RoundX(ref.X{Num: rd, Den: ref.One}, d128.ToNearestEven, false).Class == ref.Inf
		if hugeTerm && knownActive("F14-fromrat-huge-terms") {
			st.Exclude("F14-fromrat-huge-terms")
			return nil
		}
		lo, hi := ref.RoundX(x, d128.ToZero, true), ref.RoundX(x, d128.AwayFromZero, true)
		if lo.Class == ref.Inf || ref.Quantum(x) == ref.Emin {
			// beyond the largest finite value, or in the subnormal range where 34 digits are
			// not available: the result must be one of the neighbours of the exact value (or Inf)
			if !ref.SameVal(got, lo) && !ref.SameVal(got, hi) {
				return violf("FromRat(%s/%s) = %s, exact value lies between %s and %s", abbr(rn.String()), abbr(rd.String()), got, lo, hi)
			}
			st.Class(">34digits/edge-of-range")
		} else {
			if got.Class != ref.Finite || got.Neg != x.Neg {
				if !(got.Class == ref.Inf && hi.Class == ref.Inf && got.Neg == x.Neg) {
					return violf("FromRat(%s/%s) = %s", abbr(rn.String()), abbr(rd.String()), got)
				}
			} else if v := relErrWithin(got, x, 2, 33); v != "" {
				return violf("FromRat(%s/%s) = %s: %s", abbr(rn.String()), abbr(rd.String()), got, v)
			}
			st.Class(">34digits/tolerance")
		}
	}
	st.NT(hashString(a.Num+"/"+a.Den), func() any {
		return map[string]any{"num": abbr(a.Num), "den": abbr(a.Den)}
	})
	return nil
})

// relErrWithin reports (as a non-empty message) when |g - x| > k*10^-p * |x|.
func relErrWithin(g ref.Num, x ref.X, k int64, p int) string {
	// |g*xd - xn*10^(xe-ge)| * 10^p <= k * xn ...  do it with rationals on moderate sizes
	gx := ref.XOf(g)
	// diff = g - x  as fraction with common exponent
	e := min(gx.Exp, x.Exp)
	gn := new(big.Int).Mul(gx.Num, ref.Pow10(gx.Exp-e))
	gn.Mul(gn, x.Den)
	xn := new(big.Int).Mul(x.Num, ref.Pow10(x.Exp-e))
	diff := new(big.Int).Sub(gn, xn)
	diff.Abs(diff)
	diff.Mul(diff, ref.Pow10(p))
	bound := new(big.Int).Mul(xn, big.NewInt(k))
	if diff.Cmp(bound) > 0 {
		return "relative error exceeds " + big.NewInt(k).String() + "e-" + itoa(p)
	}
	return ""
}

// ---- generators --------------------------------------------------------------

func genBigInt(t *rapid.T) *big.Int {
	var i *big.Int
	if ir(t, 0, 99, "farBeyond") == 0 {
		// tens of thousands of digits beyond the range (the result is an infinity): the digit counts at which a
		// 16-bit exponent counter that is incremented per stripped digit would wrap (2^15 - 6176, 2^16 - 6176,
		// 2^16, 2^16 + 6111, 2^17 - 6176) and a few in between
		n := []int{6200, 9000, 20000, 26590, 26600, 32768, 40000, 59360, 59400, 65536, 65600, 71650, 71700, 100000, 124900, 131072}[ir(t, 0, 15, "digits")] + ir(t, -3, 40, "dOff")
		i = new(big.Int).Mul(genDigits(t, ir(t, 1, 35, "lead")), ref.Pow10(n))
		if rapid.Bool().Draw(t, "plusOne") {
			i.Add(i, ref.One)
		}
		if rapid.Bool().Draw(t, "neg") {
			i = new(big.Int).Neg(i)
		}
		return i
	}
	switch ir(t, 0, 7, "bigKind") {
	case 0:
		i = genCoef(t)
	case 1:
		// c * 10^k (+ tie pattern): exercises the 1e18-step reduction and sticky
		k := ir(t, 1, 6200, "k")
		if rapid.Bool().Draw(t, "smallK") {
			k = ir(t, 1, 120, "kSmall")
		}
		i = new(big.Int).Mul(fullCoef(t), ref.Pow10(k))
		switch ir(t, 0, 3, "tie") {
		case 1:
			i.Add(i, new(big.Int).Mul(big5, ref.Pow10(k-1)))
		case 2:
			i.Add(i, new(big.Int).Mul(big5, ref.Pow10(k-1)))
			i.Add(i, bi(int64(ir(t, -1, 1, "tieOff"))))
		case 3:
			i.Add(i, bi(int64(ir(t, 0, 9, "low"))))
		}
	case 2:
		// random bits: <=128, 129..256, >256
		n := []int{ir(t, 1, 128, "b1"), ir(t, 129, 256, "b2"), ir(t, 257, 21000, "b3")}[ir(t, 0, 2, "bitsKind")]
		bs := ubytes(t, (n+7)/8, "bytes")
		i = new(big.Int).SetBytes(bs)
	case 3:
		// around the overflow threshold
		i = new(big.Int).Mul(new(big.Int).Add(ref.Cmax, bi(int64(ir(t, -2, 2, "off")))), ref.Pow10(ref.Emax+ir(t, -2, 1, "eoff")))
		i.Add(i, new(big.Int).Mul(bi(int64(ir(t, 0, 9, "d"))), ref.Pow10(ref.Emax-1)))
	case 4:
		i = new(big.Int).Lsh(ref.One, uint([]int{63, 64, 113, 127, 128, 129, 255, 256, 257}[ir(t, 0, 8, "p2")]))
		i.Add(i, bi(int64(ir(t, -2, 2, "off"))))
	default:
		n := ir(t, 1, 80, "digits")
		i = genDigits(t, min(n, 35))
		if n > 35 {
			i.Mul(i, ref.Pow10(n-35))
			i.Add(i, genDigits(t, min(n-35, 35)))
		}
	}
	if rapid.Bool().Draw(t, "negate") {
		return new(big.Int).Neg(i)
	}
	return new(big.Int).Set(i)
}

func genNearBound(t *rapid.T) D {
	bounds := []*big.Int{minI64, maxI64, minI32, maxI32, maxU64, maxU32, new(big.Int), big.NewInt(-1), big.NewInt(1)}
	b := bounds[ir(t, 0, len(bounds)-1, "bound")]
	k := ir(t, 0, 15, "scale")
	v := new(big.Int).Mul(b, ref.Pow10(k))
	v.Add(v, bi(int64(ir(t, -12, 12, "j"))))
	neg := v.Sign() < 0
	v.Abs(v)
	if v.Sign() == 0 {
		neg = genSign(t)
	}
	return DFin(neg, capCoef(v), -k)
}

func TestC10_FromInt(t *testing.T) {
	runRapid(t, 40000, 1000000, func(t *rapid.T) {
		var i int64
		var u uint64
		switch ir(t, 0, 3, "kind") {
		case 0:
			i = []int64{math.MinInt64, math.MinInt64 + 1, math.MaxInt64, math.MinInt32, math.MaxInt32, math.MinInt32 - 1, math.MaxInt32 + 1, 0, -1, 1}[ir(t, 0, 9, "i")]
			u = []uint64{0, 1, math.MaxUint64, math.MaxUint64 - 1, math.MaxUint32, math.MaxUint32 + 1, 1 << 63}[ir(t, 0, 6, "u")]
		default:
			i = int64(u64(t, "i64"))
			u = u64(t, "u64")
		}
		c10from.Run(t, c10FromArgs{I: i, U: u})
	})
}

func TestC10_FromBig(t *testing.T) {
	runRapid(t, 30000, 1500000, func(t *rapid.T) {
		c10big.Run(t, c10BigArgs{I: genBigInt(t).String()})
	})
}

func TestC10_ToInt(t *testing.T) {
	runRapid(t, 80000, 3000000, func(t *rapid.T) {
		var v D
		switch ir(t, 0, 5, "kind") {
		case 0, 1, 2:
			v = genNearBound(t)
		case 3:
			// fractions just below an integer, and values in (-1, 1)
			c := new(big.Int).Sub(ref.Pow10(ir(t, 1, 34, "n")), bi(int64(ir(t, 1, 3, "below"))))
			v = DFin(genSign(t), c, -ir(t, 0, 40, "scale"))
		case 4:
			v = genAny(t)
		default:
			v = DFin(genSign(t), genCoef(t), ir(t, -45, 45, "e"))
		}
		c10to.Run(t, c10ToArgs{V: v})
	})
}

func TestC10_Rat(t *testing.T) {
	runRapid(t, 20000, 800000, func(t *rapid.T) {
		var v D
		if k := ir(t, 0, 9, "kind"); k == 0 {
			v = genZero(t)
		} else if k <= 3 {
			v = genFinite(t)
		} else {
			// moderate exponents: the bulk of real use, cheap to check
			v = DFin(genSign(t), genCoef(t), ir(t, -400, 400, "e"))
		}
		c10rat.Run(t, c10RatArgs{V: v})
	})
}

func TestC10_FromRat(t *testing.T) {
	runRapid(t, 20000, 1000000, func(t *rapid.T) {
		var num, den *big.Int
		switch ir(t, 0, 4, "kind") {
		case 0, 1:
			// both at most 34 digits: correctly rounded quotient
			num = genDigits(t, ir(t, 1, 34, "nl"))
			den = genDigits(t, ir(t, 1, 34, "dl"))
			if rapid.Bool().Draw(t, "terminating") {
				den = new(big.Int).Mul(pow(2, ir(t, 0, 40, "a")), pow(5, ir(t, 0, 20, "b")))
				for ref.DecLen(den) > 34 {
					den.Rsh(den, 1)
				}
			}
		case 2:
			num = genBigInt(t)
			den = genBigInt(t)
		case 3:
			num = genBigInt(t)
			den = genDigits(t, ir(t, 1, 34, "dl"))
		default:
			num = genDigits(t, ir(t, 1, 34, "nl"))
			den = genBigInt(t)
		}
		if den.Sign() == 0 {
			den = big.NewInt(7)
		}
		if rapid.Bool().Draw(t, "neg") {
			num = new(big.Int).Neg(num)
		}
		c10fromrat.Run(t, c10FromRatArgs{Num: num.String(), Den: den.String()})
	})
}
