package harness

import (
	"bytes"
	"encoding/binary"
	"math/big"
	"testing"

	d128 "github.com/woodsbury/decimal128"
	"pgregory.net/rapid"

	"verif/harness/ref"
)

// C12 — the 16-byte binary form is IEEE 754 BID and lossless.

type c12Args struct {
	V D
}

var c12 = Register("C12", "C12.bid", func(a c12Args) *Violation {
	st := S("C12", "bid")
	st.Eval(1)
	d := a.V.Dec()
	b, err := d.MarshalBinary()
	if err != nil || len(b) != 16 {
		return violf("MarshalBinary(%s): len %d err %v", a.V, len(b), err)
	}
	if v := ownedBytes("MarshalBinary("+a.V.String()+")", b, func() []byte { r, _ := d.MarshalBinary(); return r }); v != nil {
		return v
	}
	hi, lo := binary.BigEndian.Uint64(b[:8]), binary.BigEndian.Uint64(b[8:])
	n := ref.DecodeBits(hi, lo) // independent decoder applied to the emitted bytes

	// what the API says the value is, through routes that do not involve MarshalBinary
	// Decompose gets nil or a reused scratch buffer still holding other bytes: what it reports must not depend on it
	var scratch []byte
	if h := hashWords(a.V.Hi, a.V.Lo, 9); h&1 == 1 {
		c := 16 + int(h>>16)%17
		scratch = make([]byte, int(h>>8)%(c+1), c)
		full := scratch[:cap(scratch)]
		for i := range full {
			full[i] = byte(h>>(uint(i)%56)) | 1
		}
	}
	form, neg, coefBytes, exp := d.Decompose(scratch)
	// the sign bit of the bytes is the sign every accessor reports, for every class (NaN included)
	if sb := b[0]&0x80 != 0; sb != d.Signbit() || sb != neg {
		return violf("%s: sign bit in bytes %v, Signbit() %v, Decompose %v", a.V, sb, d.Signbit(), neg)
	}
	switch {
	case d.IsNaN():
		if n.Class != ref.NaN || b[0]&0x7c != 0x7c || form != 2 {
			return violf("NaN %s marshals to % x (decoder: %s)", a.V, b, n)
		}
	case d.IsInf(0):
		if n.Class != ref.Inf || b[0]&0x7c != 0x78 || n.Neg != d.Signbit() || form != 1 {
			return violf("Inf %s marshals to % x (decoder: %s)", a.V, b, n)
		}
		if d.IsInf(1) == n.Neg || d.IsInf(-1) != n.Neg {
			return violf("Inf %s (% x): IsInf(+1) = %v, IsInf(-1) = %v, decoder sign negative = %v", a.V, b, d.IsInf(1), d.IsInf(-1), n.Neg)
		}
	default:
		if n.Class != ref.Finite || form != 0 {
			return violf("finite %s marshals to % x (decoder: %s, form %d)", a.V, b, n, form)
		}
		if n.Neg != d.Signbit() || neg != n.Neg {
			return violf("%s: sign bit in bytes %v, Signbit() %v, Decompose %v", a.V, n.Neg, d.Signbit(), neg)
		}
		apiCoef := new(big.Int).SetBytes(coefBytes)
		if apiCoef.Cmp(n.Coef) != 0 || (apiCoef.Sign() != 0 && int(exp) != n.Exp) {
			return violf("%s: bytes decode to %s but Decompose reports %se%d", a.V, n, apiCoef, exp)
		}
		// the text form must denote the same value as the decoded bytes
		num, ok := ref.EvalNumeral(d.String())
		if !ok || !num.Denotes(n) {
			return violf("%s: bytes decode to %s but String() is %q", a.V, n, d.String())
		}
		// independent encoder reproduces the bytes from (sign, coefficient, exponent)
		if n.Coef.Cmp(ref.Cmax) <= 0 {
			ehi, elo := ref.EncodeBits(n.Neg, n.Coef, n.Exp)
			if ehi != hi || elo != lo {
				return violf("%s: independent encoder gives %016x%016x, MarshalBinary % x", a.V, ehi, elo, b)
			}
			// field layout: form 2 (steering bits 11) iff the coefficient needs bit 113
			steering := b[0]&0x60 == 0x60
			if steering != (n.Coef.BitLen() > 113) {
				return violf("%s: steering form %v for a %d-bit coefficient", a.V, steering, n.Coef.BitLen())
			}
		}
	}
	// round trip, bit for bit
	back := prior(hashWords(a.V.Hi, a.V.Lo, 1)) // the receiver's earlier value must not leak into the result
	keep := append([]byte(nil), b...)
	if err := back.UnmarshalBinary(b); err != nil {
		return violf("UnmarshalBinary(Marshal(%s)): %v", a.V, err)
	}
	if !bytes.Equal(b, keep) {
		return violf("UnmarshalBinary modified its input")
	}
	if back != d {
		return violf("Unmarshal(Marshal(%s)) = %s (bits differ)", a.V, DOf(back))
	}
	b2, _ := back.MarshalBinary()
	if !bytes.Equal(b2, b) {
		return violf("second MarshalBinary differs: % x vs % x", b2, b)
	}
	// byte-side round trip: the pattern itself as input
	var raw [16]byte
	binary.BigEndian.PutUint64(raw[:8], a.V.Hi)
	binary.BigEndian.PutUint64(raw[8:], a.V.Lo)
	fromRaw := prior(hashWords(a.V.Hi, a.V.Lo, 2))
	if err := fromRaw.UnmarshalBinary(raw[:]); err != nil {
		return violf("UnmarshalBinary(% x): %v", raw, err)
	}
	out, _ := fromRaw.MarshalBinary()
	if !bytes.Equal(out, raw[:]) {
		return violf("Marshal(Unmarshal(% x)) = % x", raw, out)
	}
	// the value UnmarshalBinary builds from IEEE bytes is the value the bytes denote
	nr := ref.DecodeBits(a.V.Hi, a.V.Lo)
	if nr.Class == ref.Finite {
		num, ok := ref.EvalNumeral(fromRaw.String())
		if !ok || !num.Denotes(nr) {
			return violf("UnmarshalBinary(% x) prints %q, bytes denote %s", raw, fromRaw.String(), nr)
		}
	} else if (nr.Class == ref.NaN) != fromRaw.IsNaN() || (nr.Class == ref.Inf) != fromRaw.IsInf(0) {
		return violf("UnmarshalBinary(% x): class mismatch", raw)
	}
	switch {
	case n.Class != ref.Finite:
		st.Class("special")
		if a.V.Lo != 0 || a.V.Hi&(1<<58-1) != 0 {
			st.NT(hashWords(a.V.Hi, a.V.Lo), func() any { return map[string]any{"bits": a.V.String()} })
		}
	case n.Coef.BitLen() > 113:
		st.Class("form2")
		st.NT(hashWords(a.V.Hi, a.V.Lo), func() any { return map[string]any{"bits": a.V.String()} })
	case n.Coef.BitLen() > 64:
		st.Class("form1>64bit")
		st.NT(hashWords(a.V.Hi, a.V.Lo), func() any { return map[string]any{"bits": a.V.String()} })
	default:
		st.Class("form1<=64bit")
	}
	if n.Class == ref.Finite && n.Coef.Cmp(ref.Cmax) > 0 {
		st.Class("coefficient>Cmax(form2 overflow pattern)")
	}
	return nil
})

type c12LenArgs struct {
	Data []byte
}

var c12len = Register("C12", "C12.length", func(a c12LenArgs) *Violation {
	st := S("C12", "length")
	st.Eval(1)
	keep := append([]byte(nil), a.Data...)
	was := prior(hashBytes(a.Data))
	d := was
	err := d.UnmarshalBinary(a.Data)
	if !bytes.Equal(keep, a.Data) {
		return violf("UnmarshalBinary modified its input")
	}
	if (err == nil) != (len(a.Data) == 16) {
		return violf("UnmarshalBinary(len %d) err = %v", len(a.Data), err)
	}
	if len(a.Data) != 16 {
		st.NT(hashBytes(a.Data), func() any { return map[string]any{"len": len(a.Data)} })
		if d != was {
			// receiver state on error is not claimed; only counted
			st.Class("receiver-changed-on-error")
		}
	}
	return nil
})

func TestC12_BID(t *testing.T) {
	runRapid(t, 150000, 16000000, func(t *rapid.T) {
		c12.Run(t, c12Args{V: genAny(t)})
	})
}

func TestC12_Length(t *testing.T) {
	runRapid(t, 20000, 400000, func(t *rapid.T) {
		n := ir(t, 0, 64, "len")
		if ir(t, 0, 3, "near16") == 0 {
			n = ir(t, 14, 18, "len16")
		}
		data := ubytes(t, n, "data")
		c12len.Run(t, c12LenArgs{Data: data})
	})
}

// TestC12_Vectors pins the independent codec itself to hand-computed IEEE
// 754-2008 vectors, so that decoder and encoder cannot be wrong in the same way
// as the package.
func TestC12_Vectors(t *testing.T) {
	if cfg.shard != 0 {
		t.Skip("enumeration runs in shard 0 only")
	}
	type vec struct {
		hi, lo uint64
		s      string
	}
	vecs := []vec{
		{0x3040000000000000, 1, "1e0"},
		{0xb040000000000000, 1, "-1e0"},
		{0x3040000000000000, 0, "0e0"},
		{0x0000000000000000, 1, "1e-6176"},
		{0x5ffe000000000000, 1, "1e6111"},
		{0x3042000000000000, 10, "10e1"},
		{0x5fffed09bead87c0, 0x378d8e63ffffffff, "9999999999999999999999999999999999e6111"}, // largest IEEE canonical
		{0x2ffe000000000000, 0x00000000075bcd15, "123456789e-33"},
	}
	for _, v := range vecs {
		if got := ref.DecodeBits(v.hi, v.lo).String(); got != v.s {
			t.Fatalf("decoder self-test: %016x %016x -> %s, want %s", v.hi, v.lo, got, v.s)
		}
	}
	if n := ref.DecodeBits(0x7800000000000000, 0); n.Class != ref.Inf || n.Neg {
		t.Fatal("decoder self-test: +Inf")
	}
	if n := ref.DecodeBits(0xfc00000000000000, 5); n.Class != ref.NaN {
		t.Fatal("decoder self-test: NaN")
	}
	// form 2: coefficient 2^113 at exponent 0 -> steering 11, exponent field at bit 47
	c := new(big.Int).Lsh(big.NewInt(1), 113)
	hi, lo := ref.EncodeBits(false, c, 0)
	if hi != 0x6000000000000000|uint64(6176)<<47 || lo != 0 {
		t.Fatalf("encoder self-test: form 2 gives %016x %016x", hi, lo)
	}
	S("C12", "codec-vectors").Eval(len(vecs) + 3)
}

// C12.constructed: values that reach MarshalBinary through the package's own
// constructors (Parse, Compose, arithmetic) rather than from raw bits, so that
// the encoder inside the package (choice of steering form, field placement) is
// what produces the bytes.
type c12CtorArgs struct {
	Neg  bool
	Coef string
	Exp  int
}

var c12ctor = Register("C12", "C12.constructed", func(a c12CtorArgs) *Violation {
	st := S("C12", "constructed")
	st.Eval(1)
	c, ok := new(big.Int).SetString(a.Coef, 10)
	if !ok || c.Sign() < 0 || c.Cmp(ref.Cmax) > 0 || a.Exp < ref.Emin || a.Exp > ref.Emax {
		return nil
	}
	want := ref.Num{Class: ref.Finite, Neg: a.Neg, Coef: c, Exp: a.Exp}
	check := func(route string, d d128.Decimal) *Violation {
		b, err := d.MarshalBinary()
		if err != nil || len(b) != 16 {
			return violf("%s: MarshalBinary len %d err %v", route, len(b), err)
		}
		n := ref.DecodeBits(binary.BigEndian.Uint64(b[:8]), binary.BigEndian.Uint64(b[8:]))
		if !ref.SameVal(n, want) {
			return violf("%s of %s: MarshalBinary gives % x, which an independent BID decoder reads as %s", route, want, b, n)
		}
		if n.Coef.Cmp(ref.Cmax) > 0 {
			return violf("%s of %s: encoded coefficient %s exceeds the format", route, want, n.Coef)
		}
		steering := b[0]&0x60 == 0x60
		if steering != (n.Coef.BitLen() > 113) {
			return violf("%s of %s: steering form %v for a %d-bit coefficient (% x)", route, want, steering, n.Coef.BitLen(), b)
		}
		back := prior(hashBytes(b))
		if err := back.UnmarshalBinary(b); err != nil || back != d {
			return violf("%s of %s: Unmarshal(Marshal) differs", route, want)
		}
		return nil
	}
	sign := ""
	if a.Neg {
		sign = "-"
	}
	p, err := d128.Parse(sign + a.Coef + "e" + itoa64(int64(a.Exp)))
	if err != nil {
		return violf("Parse(%s%se%d): %v", sign, a.Coef, a.Exp, err)
	}
	if v := check("Parse", p); v != nil {
		return v
	}
	viaCompose := prior(hashString(a.Coef) + uint64(a.Exp))
	if err := viaCompose.Compose(0, a.Neg, c.Bytes(), int32(a.Exp)); err != nil {
		return violf("Compose(%s): %v", want, err)
	}
	if v := check("Compose", viaCompose); v != nil {
		return v
	}
	// arithmetic route: (c-1) + 1 at the same exponent is exact
	if c.Sign() > 0 {
		one := ref.Encode(a.Neg, big.NewInt(1), a.Exp)
		rest := ref.Encode(a.Neg, new(big.Int).Sub(c, big.NewInt(1)), a.Exp)
		sum := rest.Add(one)
		wantSum := want
		if v := func() *Violation {
			b, _ := sum.MarshalBinary()
			n := ref.DecodeBits(binary.BigEndian.Uint64(b[:8]), binary.BigEndian.Uint64(b[8:]))
			if !ref.SameVal(n, wantSum) {
				return violf("Add route of %s: MarshalBinary gives % x, decoded %s", want, b, n)
			}
			return nil
		}(); v != nil {
			return v
		}
	}
	if c.BitLen() > 64 {
		if c.BitLen() > 113 {
			st.Class("steering-form")
		} else if c.BitLen() == 113 || c.BitLen() == 114 {
			st.Class("around-bit-113")
		}
		st.NT(hashString(a.Coef)^uint64(a.Exp)<<1^uint64(b2i(a.Neg)), func() any {
			return map[string]any{"coef": a.Coef, "exp": a.Exp, "neg": a.Neg}
		})
	}
	return nil
})

func TestC12_Constructed(t *testing.T) {
	runRapid(t, 60000, 3000000, func(t *rapid.T) {
		var c *big.Int
		switch ir(t, 0, 3, "kind") {
		case 0:
			// around the steering boundary 2^113 (+ the width of one low word) and Cmax
			base := new(big.Int).Lsh(ref.One, 113)
			switch ir(t, 0, 3, "near") {
			case 0:
				base.Add(base, new(big.Int).SetUint64(u64(t, "lowWord")))
			case 1:
				base.Add(base, bi(int64(ir(t, -3, 3, "off"))))
			case 2:
				base.Add(base, new(big.Int).Lsh(new(big.Int).SetUint64(u64(t, "w")>>17), 64))
			default:
				base.Sub(ref.Cmax, bi(int64(ir(t, 0, 3, "off"))))
			}
			c = capCoef(base)
		default:
			c = genCoef(t)
		}
		c12ctor.Run(t, c12CtorArgs{Neg: genSign(t), Coef: c.String(), Exp: genExp(t)})
	})
}
