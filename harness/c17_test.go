package harness

import (
	"math/big"
	"testing"

	d128 "github.com/woodsbury/decimal128"
	"pgregory.net/rapid"

	"verif/harness/ref"
)

// C17 — Sqrt and Cbrt are correctly rounded up to a 1e-20 ulp midpoint margin.

type c17Args struct {
	V    D
	Cube bool
}

var c17m = func() *big.Int { // (1/2 + 1e-20) * 1e20
	m := new(big.Int).Mul(big5, ref.Pow10(19))
	return m.Add(m, ref.One)
}()

var c17 = Register("C17", "C17.root", func(a c17Args) *Violation {
	st := S("C17", "root")
	st.Eval(1)
	d := a.V.Dec()
	n := a.V.Num()
	name, k := "Sqrt", 2
	var got d128.Decimal
	if a.Cube {
		name, k = "Cbrt", 3
		got = d128.Cbrt(d)
	} else {
		got = d128.Sqrt(d)
	}
	g := ref.Decode(got)
	switch {
	case n.Class == ref.NaN:
		if g.Class != ref.NaN {
			return violf("%s(NaN) = %s", name, g)
		}
		st.Class("special")
		return nil
	case n.Class == ref.Inf:
		if !a.Cube && n.Neg {
			if g.Class != ref.NaN {
				return violf("Sqrt(-Inf) = %s, want NaN", g)
			}
		} else if g.Class != ref.Inf || g.Neg != n.Neg {
			return violf("%s(%s) = %s", name, n, g)
		} else if got != d {
			// "zeros, +Inf (and -Inf for Cbrt) return themselves": the operand, not another encoding of its value
			return violf("%s(%s) = %s: an infinite argument is returned itself, bit for bit", name, a.V, DOf(got))
		}
		st.Class("special")
		return nil
	case n.IsZero():
		if !g.IsZero() || g.Neg != n.Neg {
			return violf("%s(%s) = %s, want the zero itself", name, n, g)
		}
		if got != d {
			return violf("%s(%s) = %s: a zero argument is returned itself (same exponent field), bit for bit", name, a.V, DOf(got))
		}
		st.Class("zero")
		return nil
	case !a.Cube && n.Neg:
		if g.Class != ref.NaN {
			return violf("Sqrt(%s) = %s, want NaN", n, g)
		}
		st.Class("sqrt-of-negative")
		return nil
	}
	if g.Class != ref.Finite || g.IsZero() || g.Neg != n.Neg {
		return violf("%s(%s) = %s", name, n, g)
	}
	// r at the format's spacing: r = c * 10^q, u = 10^q
	rx := ref.XOf(g)
	rx.Neg = false
	q := ref.Quantum(rx)
	c, _, exact := ref.IntDiv(rx, q)
	if !exact {
		return violf("%s(%s) = %s is not a member of the format grid", name, n, g)
	}
	// bounds ((c*1e20 -/+ m) * 10^(q-20))^k  compared with |d| = coef * 10^exp
	lo := new(big.Int).Mul(c, ref.Pow10(20))
	hi := new(big.Int).Set(lo)
	lo.Sub(lo, c17m)
	hi.Add(hi, c17m)
	pw := func(x *big.Int) *big.Int { return new(big.Int).Exp(x, big.NewInt(int64(k)), nil) }
	lok, hik := pw(lo), pw(hi)
	be := k * (q - 20) // exponent of the bounds
	// compare lok*10^be <= coef*10^exp <= hik*10^be
	cmp := func(bound *big.Int) int { // sign of (coef*10^exp - bound*10^be)
		l := new(big.Int).Set(n.Coef)
		r := new(big.Int).Set(bound)
		if n.Exp > be {
			l.Mul(l, ref.Pow10(n.Exp-be))
		} else if be > n.Exp {
			r.Mul(r, ref.Pow10(be-n.Exp))
		}
		return l.Cmp(r)
	}
	if lo.Sign() > 0 && cmp(lok) < 0 {
		return violf("%s(%s) = %s is too large: |d| < (r - (1/2+1e-20)u)^%d", name, n, g, k)
	}
	if cmp(hik) > 0 {
		return violf("%s(%s) = %s is too small: |d| > (r + (1/2+1e-20)u)^%d", name, n, g, k)
	}
	// classification: perfect power? distance of the root to a midpoint?
	rk := pw(c)
	perfect := func() bool {
		l := new(big.Int).Set(n.Coef)
		r := new(big.Int).Set(rk)
		e2 := k * q
		if n.Exp > e2 {
			l.Mul(l, ref.Pow10(n.Exp-e2))
		} else if e2 > n.Exp {
			r.Mul(r, ref.Pow10(e2-n.Exp))
		}
		return l.Cmp(r) == 0
	}()
	if perfect {
		st.Class(name + "/perfect-power")
	} else {
		st.Class(name + "/inexact")
		// midpoint proximity: is |d| outside ((c -/+ (1/2 - 10^-j)) u)^k, i.e. the root within 10^-j ulp of a midpoint?
		for _, j := range []int{6, 9, 12, 15} {
			mj := new(big.Int).Sub(new(big.Int).Mul(big5, ref.Pow10(19)), ref.Pow10(20-j))
			loj := new(big.Int).Sub(new(big.Int).Mul(c, ref.Pow10(20)), mj)
			hij := new(big.Int).Add(new(big.Int).Mul(c, ref.Pow10(20)), mj)
			if !((loj.Sign() > 0 && cmp(pw(loj)) < 0) || cmp(pw(hij)) > 0) {
				break
			}
			st.Class(name + "/root-within-1e-" + itoa(j) + "ulp-of-midpoint")
		}
		r := ((n.Exp % k) + k) % k
		st.Class(name + "/exp-mod-" + itoa(k) + "=" + itoa(r))
		st.NT(hashWords(a.V.Hi, a.V.Lo, uint64(k)), func() any { return map[string]any{"fn": name, "d": n.String(), "root": g.String()} })
	}
	return nil
})

// genRootArg draws arguments for Sqrt/Cbrt.
func genRootArg(t *rapid.T, cube bool) D {
	k := 2
	if cube {
		k = 3
	}
	switch ir(t, 0, 9, "rootKind") {
	case 0:
		return genAny(t)
	case 1, 2:
		// perfect powers of short integers and their neighbours
		maxLen := 17
		if cube {
			maxLen = 11
		}
		s := genDigits(t, ir(t, 1, maxLen, "len"))
		p := new(big.Int).Exp(s, big.NewInt(int64(k)), nil)
		p.Add(p, bi(int64(ir(t, -1, 1, "delta"))))
		if p.Sign() < 0 {
			p.SetInt64(1)
		}
		e := k * ir(t, -2000, 2000, "e")
		return DFin(cube && genSign(t), capCoef(p), clampExp(e))
	case 3, 4, 5:
		// hardest cases: d next to ((c + 1/2) * 10^q)^k for a full-precision root c
		c := fullCoef(t)
		h := new(big.Int).Mul(c, ref.Two)
		h.Add(h, ref.One) // 2c+1 : (c+1/2) = h/2
		p := new(big.Int).Exp(h, big.NewInt(int64(k)), nil)
		// value = p / 2^k * 10^(k q). Round it to the format from both sides.
		den := new(big.Int).Lsh(ref.One, uint(k))
		qexp := ir(t, -2000, 2000, "q")
		x := ref.X{Num: p, Den: den, Exp: k * qexp}
		m := []d128.RoundingMode{d128.ToZero, d128.AwayFromZero}[ir(t, 0, 1, "side")]
		r := ref.RoundX(x, m, false)
		if r.Class != ref.Finite {
			return genFiniteNZ(t)
		}
		cc := new(big.Int).Add(r.Coef, bi(int64(ir(t, -1, 1, "unit"))))
		if cc.Sign() <= 0 || cc.Cmp(ref.Cmax) > 0 {
			cc = r.Coef
		}
		return DFin(cube && genSign(t), cc, r.Exp)
	case 6:
		// subnormal and tiny arguments, huge arguments
		if ir(t, 0, 1, "tiny") == 0 {
			return DFin(cube && genSign(t), genCoef(t), ref.Emin+ir(t, 0, 40, "off"))
		}
		return DFin(cube && genSign(t), genCoef(t), ref.Emax-ir(t, 0, 40, "off"))
	case 7:
		// short coefficients: every residue of the exponent
		return DFin(cube && genSign(t), genDigits(t, ir(t, 1, 5, "len")), ir(t, -60, 60, "e"))
	}
	d := genFiniteNZ(t)
	if !cube {
		d.Hi &^= 1 << 63
	}
	return d
}

// henselSqrtArg constructs an argument whose square root lies extremely close to a rounding midpoint, by
// solving w(w+1) = c (mod 10^34) with Hensel lifting: then d = (w^2 + w - c) / 10^34 is an integer of about 34
// digits and sqrt(d * 10^34) = (w + 1/2) - (c + 1/4)/(2w+1) - ..., i.e. the root misses the midpoint above w by
// about c/(2w) units in the last place. c is drawn so that this distance lies between 1e-20 (the property's
// exemption) and about 1e-9 ulp, on either side of the midpoint.
func henselSqrtArg(t *rapid.T) (D, bool) {
	k := 34
	mod2, mod5 := new(big.Int).Lsh(ref.One, uint(k)), pow(5, k)
	m10 := ref.Pow10(k)
	// c even with c mod 5 in {0, 2} (simple roots modulo 2 and 5); sign selects the side of the midpoint
	mag := ir(t, 15, 25, "cDigits")
	c := genDigits(t, mag)
	c.Sub(c, new(big.Int).Mod(c, ref.Ten)) // ...0
	if ir(t, 0, 1, "plus2") == 1 {
		c.Add(c, ref.Two)
	}
	above := ir(t, 0, 1, "above") == 1
	target := new(big.Int).Set(c) // w(w+1) = target (mod 10^k), target = c (below) or -c (above)
	if above {
		target.Neg(c)
	}
	lift := func(p int64, pk *big.Int, steps int) *big.Int {
		// root of f(w) = w^2 + w - target modulo p, lifted to p^steps by Newton's iteration
		var w *big.Int
		pp := big.NewInt(p)
		for r := int64(0); r < p; r++ {
			f := new(big.Int).Sub(big.NewInt(r*r+r), target)
			if new(big.Int).Mod(f, pp).Sign() == 0 && (2*r+1)%p != 0 {
				if w == nil || ir(t, 0, 1, "root") == 1 {
					w = big.NewInt(r)
				}
			}
		}
		if w == nil {
			return nil
		}
		cur := new(big.Int).Set(pp)
		for cur.Cmp(pk) < 0 {
			cur.Mul(cur, cur)
			if cur.Cmp(pk) > 0 {
				cur.Set(pk)
			}
			f := new(big.Int).Mul(w, w)
			f.Add(f, w)
			f.Sub(f, target)
			fp := new(big.Int).Lsh(w, 1)
			fp.Add(fp, ref.One)
			inv := new(big.Int).ModInverse(new(big.Int).Mod(fp, cur), cur)
			if inv == nil {
				return nil
			}
			w.Sub(w, new(big.Int).Mul(f, inv))
			w.Mod(w, cur)
		}
		return w
	}
	w2, w5 := lift(2, mod2, k), lift(5, mod5, k)
	if w2 == nil || w5 == nil {
		return D{}, false
	}
	// CRT
	inv := new(big.Int).ModInverse(new(big.Int).Mod(mod2, mod5), mod5)
	diff := new(big.Int).Sub(w5, w2)
	diff.Mul(diff, inv)
	diff.Mod(diff, mod5)
	w := new(big.Int).Add(w2, new(big.Int).Mul(mod2, diff))
	w.Mod(w, m10)
	lowest := new(big.Int).Quo(new(big.Int).Add(ref.Cmax, ref.One), ref.Ten)
	if w.Cmp(lowest) < 0 {
		w.Add(w, m10)
	}
	if w.Cmp(ref.Cmax) > 0 || w.Cmp(lowest) < 0 {
		return D{}, false
	}
	num := new(big.Int).Mul(w, w)
	num.Add(num, w)
	num.Sub(num, target)
	rem := new(big.Int)
	d, _ := new(big.Int).QuoRem(num, m10, rem)
	if rem.Sign() != 0 || d.Sign() <= 0 || d.Cmp(ref.Cmax) > 0 {
		return D{}, false
	}
	e := 2 * ir(t, -3000, 3000, "halfExp")
	return DFin(false, d, clampExp(e)), true
}

func TestC17_Sqrt(t *testing.T) {
	runRapid(t, 60000, 3000000, func(t *rapid.T) {
		if ir(t, 0, 4, "hensel") == 0 {
			if v, ok := henselSqrtArg(t); ok {
				c17.Run(t, c17Args{V: v})
				return
			}
		}
		c17.Run(t, c17Args{V: genRootArg(t, false)})
	})
}

func TestC17_Cbrt(t *testing.T) {
	runRapid(t, 60000, 3000000, func(t *rapid.T) {
		if ir(t, 0, 9, "flat") == 0 {
			if v, ok := flatCbrtArg(t); ok {
				c17.Run(t, c17Args{V: v, Cube: true})
				return
			}
		}
		if ir(t, 0, 4, "lattice") == 0 {
			if v, ok := latticeCbrtArg(t); ok {
				c17.Run(t, c17Args{V: v, Cube: true})
				return
			}
		}
		c17.Run(t, c17Args{V: genRootArg(t, true), Cube: true})
	})
}

// latticeCbrtArg constructs an argument whose cube root lies about 1e-12 ulp from a rounding midpoint. With
// h = 2w+1 (so that h/2 is the midpoint above a full-precision root coefficient w) it looks for h near a random
// h0 with h^3 = c' (mod M), M = 8*10^m, |c'| small: then d = (h^3 - c')/M is an integer of at most 34/35 digits
// and cbrt(d*10^m) = h/2 - c'/(6h^2) - ..., i.e. the root misses the midpoint by |c'|/(6h^2) units in the last
// place. Writing h = h0 + 2t, h^3 = h0^3 + 6h0^2 t + O(h0 t^2); the t that makes the linear part small modulo M
// is the closest vector, in the two-dimensional lattice spanned by (s, 6h0^2) and (0, M), to (0, -h0^3), found by
// Lagrange-Gauss reduction and Babai rounding (s balances |t| against the residual so that the neglected
// quadratic term is of the same size as the residual). Unlike the square root (henselSqrtArg) the modulus has
// twice as many digits as h, so the congruence cannot be solved outright; the lattice gets within ~1e-12 ulp,
// a random search only within ~1e-6.
func latticeCbrtArg(t *rapid.T) (D, bool) {
	w0 := fullCoef(t)
	h0 := new(big.Int).Lsh(w0, 1)
	h0.Add(h0, ref.One)
	h0c := new(big.Int).Exp(h0, big.NewInt(3), nil)
	// smallest m with h0^3 / (8*10^m) <= Cmax
	m := 60
	M := new(big.Int)
	for {
		M.Mul(big.NewInt(8), ref.Pow10(m))
		if new(big.Int).Quo(h0c, M).Cmp(ref.Cmax) <= 0 {
			break
		}
		m++
	}
	if ir(t, 0, 5, "shortArg") == 0 {
		m += ir(t, 1, 3, "extra") // a shorter argument for the same root
		M.Mul(big.NewInt(8), ref.Pow10(m))
	}
	a := new(big.Int).Mod(h0c, M)
	b := new(big.Int).Mul(h0, h0)
	b.Mul(b, big.NewInt(12)) // d(h^3)/dt for h = h0 + 2t is 6 h0^2 * 2... (h0+2t)^3 = h0^3 + 6 h0^2 t + 12 h0 t^2 + 8 t^3
	b.Quo(b, ref.Two)
	b.Mod(b, M)
	// T ~ cbrt(M / (12 h0)), s = M / T^2
	T := icbrt(new(big.Int).Quo(M, new(big.Int).Mul(big.NewInt(12), h0)))
	if T.Sign() == 0 {
		T.SetInt64(1)
	}
	s := new(big.Int).Quo(M, new(big.Int).Mul(T, T))
	if s.Sign() == 0 {
		s.SetInt64(1)
	}
	u := [2]*big.Int{new(big.Int).Set(s), new(big.Int).Set(b)}
	v := [2]*big.Int{new(big.Int), new(big.Int).Set(M)}
	dot := func(x, y [2]*big.Int) *big.Int {
		r := new(big.Int).Mul(x[0], y[0])
		return r.Add(r, new(big.Int).Mul(x[1], y[1]))
	}
	roundDiv := func(n, d *big.Int) *big.Int { // nearest integer to n/d, d > 0
		twoN := new(big.Int).Lsh(n, 1)
		twoN.Add(twoN, d)
		q := new(big.Int)
		mm := new(big.Int)
		q.DivMod(twoN, new(big.Int).Lsh(d, 1), mm)
		return q
	}
	for i := 0; i < 400; i++ {
		if dot(u, u).Cmp(dot(v, v)) > 0 {
			u, v = v, u
		}
		uu := dot(u, u)
		if uu.Sign() == 0 {
			return D{}, false
		}
		mu := roundDiv(dot(u, v), uu)
		if mu.Sign() == 0 {
			break
		}
		v[0] = new(big.Int).Sub(v[0], new(big.Int).Mul(mu, u[0]))
		v[1] = new(big.Int).Sub(v[1], new(big.Int).Mul(mu, u[1]))
	}
	// Babai: p = alpha u + beta v for p = (0, -a)
	det := new(big.Int).Sub(new(big.Int).Mul(u[0], v[1]), new(big.Int).Mul(u[1], v[0]))
	if det.Sign() == 0 {
		return D{}, false
	}
	p1 := new(big.Int).Neg(a)
	an := new(big.Int).Neg(new(big.Int).Mul(p1, v[0])) // p0 v1 - p1 v0 with p0 = 0
	bn := new(big.Int).Mul(u[0], p1)                   // u0 p1 - u1 p0
	if det.Sign() < 0 {
		det.Neg(det)
		an.Neg(an)
		bn.Neg(bn)
	}
	al := roundDiv(an, det)
	be := roundDiv(bn, det)
	al.Add(al, bi(int64(ir(t, -1, 1, "da"))))
	be.Add(be, bi(int64(ir(t, -1, 1, "db"))))
	l0 := new(big.Int).Add(new(big.Int).Mul(al, u[0]), new(big.Int).Mul(be, v[0]))
	tt := new(big.Int).Quo(l0, s)
	h := new(big.Int).Add(h0, new(big.Int).Lsh(tt, 1))
	if h.Sign() <= 0 {
		return D{}, false
	}
	hc := new(big.Int).Exp(h, big.NewInt(3), nil)
	cp := new(big.Int).Mod(hc, M)
	if new(big.Int).Lsh(cp, 1).Cmp(M) > 0 {
		cp.Sub(cp, M)
	}
	d := new(big.Int).Sub(hc, cp)
	d.Quo(d, M)
	if d.Sign() <= 0 || d.Cmp(ref.Cmax) > 0 {
		return D{}, false
	}
	qlo, qhi := (ref.Emin-m)/3+1, (ref.Emax-m)/3-1
	q := ir(t, qlo, qhi, "q")
	if ir(t, 0, 3, "qSmall") != 0 {
		q = ir(t, -40, 10, "qs")
	}
	return DFin(genSign(t), d, m+3*q), true
}

// icbrt returns floor(cbrt(n)) for n >= 0.
func icbrt(n *big.Int) *big.Int {
	if n.Sign() <= 0 {
		return new(big.Int)
	}
	x := new(big.Int).Lsh(ref.One, uint(n.BitLen()/3+1))
	for {
		// y = (2x + n/x^2) / 3
		y := new(big.Int).Quo(n, new(big.Int).Mul(x, x))
		y.Add(y, new(big.Int).Lsh(x, 1))
		y.Quo(y, big.NewInt(3))
		if y.Cmp(x) >= 0 {
			return x
		}
		x = y
	}
}

func TestC17_LatticeSelf(t *testing.T) {
	// the constructor must deliver what it promises: a good share of its draws put the root within 1e-9 ulp of
	// a midpoint (about 57 % do; a uniformly random argument does so with probability 2e-9)
	st := S("C17", "root")
	count := func() int64 {
		st.mu.Lock()
		defer st.mu.Unlock()
		return st.Classes["Cbrt/root-within-1e-9ulp-of-midpoint"]
	}
	before := count()
	made := 0
	runRapid(t, 100, 100, func(t *rapid.T) {
		if v, ok := latticeCbrtArg(t); ok {
			made++
			c17.Run(t, c17Args{V: v, Cube: true})
		}
	})
	if hit := count() - before; made < 20 || hit*10 < int64(made)*3 {
		t.Fatalf("lattice constructor: %d arguments made, only %d with a root within 1e-9 ulp of a midpoint", made, hit)
	}
}

// flatCbrtArg constructs cube-root arguments next to 1, 8, 125 (times 1000^q) whose roots miss a rounding
// midpoint by 1e-17..1e-14 ulp. Around a round root A (1, 2 or 5 times a power of ten) the linear coefficient 3A^2
// of (A + y)^3 = A^3 + 3A^2 y + 3A y^2 + y^3 is a round number too, so for y = n + 1/2 the fractional part of
// (A + y)^3 / 10^m is governed by the quadratic and cubic terms alone: solving (3A y^2 + y^3) / 10^m = K + i/8
// for real y and rounding n puts (A + n + 1/2)^3 within ~sqrt(K) * 1e-17 ulp of a representable argument for the
// i that suits A. (The lattice of latticeCbrtArg treats the quadratic term as noise and stops at 1e-12; this
// family is where a first guess or an iteration count that is slightly off shows first: arguments in [1, 1.08).)
func flatCbrtArg(t *rapid.T) (D, bool) {
	j := []int{33, 33, 33, 34}[ir(t, 0, 3, "anchor")]
	a := int64(1)
	if j == 33 {
		a = []int64{1, 2, 5}[ir(t, 0, 2, "a")]
	}
	A := new(big.Int).Mul(big.NewInt(a), ref.Pow10(j))
	h0 := new(big.Int).Lsh(A, 1)
	h0.Add(h0, ref.One)
	h0c := new(big.Int).Exp(h0, big.NewInt(3), nil)
	m := 60
	M := new(big.Int)
	for {
		M.Mul(big.NewInt(8), ref.Pow10(m))
		if new(big.Int).Quo(h0c, M).Cmp(ref.Cmax) <= 0 {
			break
		}
		m++
	}
	K := int64(ir(t, 1, 2000, "K"))
	if ir(t, 0, 3, "bigK") == 0 {
		K = int64(ir(t, 2000, 4000000, "Kbig"))
	}
	i8 := int64(ir(t, 0, 7, "i8"))
	// target T = (8K + i8) * 10^m / 8 ; solve 3A y^2 + y^3 = T by Newton from y0 = sqrt(T / 3A), in units of 1/2:
	// with z = 2y (so that y = n + 1/2 means z odd): 3A z^2 / 4 + z^3 / 8 = T  <=>  6A z^2 + z^3 = 8T
	T8 := new(big.Int).Mul(big.NewInt(8*K+i8), ref.Pow10(m)) // = 8T
	z := new(big.Int).Sqrt(new(big.Int).Quo(T8, new(big.Int).Mul(big.NewInt(6), A)))
	for it := 0; it < 6; it++ {
		z2 := new(big.Int).Mul(z, z)
		f := new(big.Int).Mul(new(big.Int).Mul(big.NewInt(6), A), z2)
		f.Add(f, new(big.Int).Mul(z2, z))
		f.Sub(f, T8)
		fp := new(big.Int).Mul(new(big.Int).Mul(big.NewInt(12), A), z)
		fp.Add(fp, new(big.Int).Mul(big.NewInt(3), z2))
		if fp.Sign() == 0 {
			return D{}, false
		}
		z.Sub(z, new(big.Int).Quo(f, fp))
	}
	if z.Bit(0) == 0 {
		z.Add(z, bi(int64(2*ir(t, 0, 1, "up")-1)))
	}
	if z.Sign() <= 0 {
		return D{}, false
	}
	h := new(big.Int).Add(new(big.Int).Lsh(A, 1), z) // 2(A + n) + 1
	hc := new(big.Int).Exp(h, big.NewInt(3), nil)
	cp := new(big.Int).Mod(hc, M)
	if new(big.Int).Lsh(cp, 1).Cmp(M) > 0 {
		cp.Sub(cp, M)
	}
	d := new(big.Int).Sub(hc, cp)
	d.Quo(d, M)
	if d.Sign() <= 0 || d.Cmp(ref.Cmax) > 0 {
		return D{}, false
	}
	q := -j // the argument itself next to 1, 8 or 125
	if ir(t, 0, 2, "scaled") == 0 {
		q = ir(t, (ref.Emin-m)/3+1, (ref.Emax-m)/3-1, "q")
	}
	return DFin(genSign(t), d, m+3*q), true
}
