package harness

import (
	"encoding/json"
	"math/big"
	"reflect"
	"runtime/debug"
	"time"

	d128 "github.com/woodsbury/decimal128"

	"verif/harness/ref"
)

// ---- history walks ---------------------------------------------------------------
//
// Every property quantifies over "all inputs" of a pure function: the answer to a
// call may depend on its arguments (and DefaultRoundingMode) and on nothing else.
// A rapid case evaluates one argument tuple, and consecutive cases are unrelated
// draws, so state that leaks from one call into the next (a memoisation cache
// keyed by part of the argument, a pooled scratch buffer that is not reset, a
// lazily extended table) would only show if two unrelated random draws happened
// to collide — which they do not. A history walk makes them collide on purpose:
// for one case in historyEvery the check is evaluated on the sequence
//
//	a, s1, a, s2, a, s3, a, s4, a
//
// where each sibling s differs from a in ONE component (sign, exponent, high
// word, low word, another cohort member, one operand swapped for the other, a
// scalar nudged, a string shortened or extended, a flag toggled). Every element
// is judged by the same exact oracle as any other case, so a stale or
// contaminated answer anywhere in the sequence is a violation. The sequence is
// registered as a check of its own ("<name>.history", args {"Seq": [...]}) so
// that the shrunk failure replays as a sequence, in a fresh process, without
// rapid.

const historyEvery = 16

type histArgs[A any] struct {
	Seq []A
	// Mode 1..6 evaluates every element under that one rounding mode only (index+1 into ref.Modes) in the checks
	// that otherwise loop over all six: a sequence x-y, y-x only collides in a cache keyed by mode when both calls
	// use the same mode back to back. 0: every element under all modes, as in an ordinary evaluation.
	Mode int `json:",omitempty"`
}

// walkMode is the rounding mode a single-mode history walk is confined to (-1: none).
var walkMode = -1

// loopModes is what a check iterates over where the property says "every rounding mode".
func loopModes() []d128.RoundingMode {
	if walkMode >= 0 {
		return ref.Modes[walkMode : walkMode+1]
	}
	return ref.Modes
}

func registerHistory[A any](c *Checker[A]) {
	name := c.name + ".history"
	registry[name] = &checkEntry{prop: c.prop, name: name, run: func(raw json.RawMessage) (*Violation, error) {
		var a histArgs[A]
		if err := json.Unmarshal(raw, &a); err != nil {
			return nil, err
		}
		return c.evalHistory(a), nil
	}}
}

// evalHistory evaluates the check on every element of the sequence, in order,
// under the same guards as Eval (crash guard, watchdog, recovered panics).
func (c *Checker[A]) evalHistory(a histArgs[A]) (v *Violation) {
	name := c.name + ".history"
	if crashArm(name, a) {
		defer crashDisarm()
	}
	inFlight.Store(&flight{start: time.Now(), fail: func(msg string) { writeFailFile(c.prop, name, a, violf("%s", msg)) }, check: name})
	defer func() {
		inFlight.Store(nil)
		if r := recover(); r != nil {
			v = violf("panic: %v\n%s", r, trimStack(debug.Stack()))
		}
	}()
	if a.Mode >= 1 && a.Mode <= len(ref.Modes) {
		walkMode = a.Mode - 1
		defer func() { walkMode = -1 }()
	}
	for i, x := range a.Seq {
		if v := c.fn(x); v != nil {
			if i == 0 && a.Mode == 0 {
				return v
			}
			return violf("call %d of a sequence of related calls (the same check evaluated on siblings of one argument tuple): %s", i+1, v.Msg)
		}
	}
	return nil
}

// historySeq builds the walk for a; sel picks which siblings are used.
func historySeq[A any](c *Checker[A], a A, sel uint64) []A {
	var sibs []A
	if c.histCustom != nil {
		sibs = c.histCustom(a)
	} else {
		sibs = siblings(a, c.histAllow)
	}
	if len(sibs) == 0 {
		return nil
	}
	seq := []A{a}
	for k := 0; k < 4; k++ {
		sel = splitmix(sel)
		seq = append(seq, sibs[int(sel%uint64(len(sibs)))], a)
	}
	return seq
}

// siblings returns variants of a that differ from it in one component. The
// variants are ordinary members of the check's input domain (every pure check
// function accepts arbitrary field values: the native fuzz targets feed it
// those), not necessarily members of the generator's distribution.
func siblings[A any](a A, allow map[string]bool) []A {
	var out []A
	emit := func(mut func(v reflect.Value)) {
		// deep copy through JSON: replay files are JSON, so every args type round-trips
		raw, err := json.Marshal(a)
		if err != nil {
			return
		}
		var b A
		if json.Unmarshal(raw, &b) != nil {
			return
		}
		mut(reflect.ValueOf(&b).Elem())
		out = append(out, b)
	}
	rv := reflect.ValueOf(a)
	if rv.Kind() != reflect.Struct {
		return nil
	}
	dType := reflect.TypeOf(D{})
	var dFields []int
	for i := 0; i < rv.NumField(); i++ {
		i := i
		f := rv.Field(i)
		if !rv.Type().Field(i).IsExported() {
			continue
		}
		if f.Type() != dType && f.Kind() != reflect.Bool && !allow[rv.Type().Field(i).Name] {
			continue
		}
		switch {
		case f.Type() == dType:
			dFields = append(dFields, i)
			d := f.Interface().(D)
			for _, s := range dSiblings(d) {
				s := s
				emit(func(v reflect.Value) { v.Field(i).Set(reflect.ValueOf(s)) })
			}
		case f.Kind() == reflect.Bool:
			emit(func(v reflect.Value) { v.Field(i).SetBool(!v.Field(i).Bool()) })
		case f.Kind() == reflect.Int || f.Kind() == reflect.Int64 || f.Kind() == reflect.Int32 || f.Kind() == reflect.Int16:
			for _, dlt := range []int64{1, -1, 4} {
				dlt := dlt
				emit(func(v reflect.Value) {
					x := v.Field(i).Int()
					if y := x + dlt; (dlt > 0) == (y > x) && !v.Field(i).OverflowInt(y) {
						v.Field(i).SetInt(y)
					}
				})
			}
		case f.Kind() == reflect.Uint8:
			// rounding modes, verbs, form bytes: the neighbouring value
			emit(func(v reflect.Value) { v.Field(i).SetUint((v.Field(i).Uint() + 1) % 6) })
		case f.Kind() == reflect.Uint64 || f.Kind() == reflect.Uint32 || f.Kind() == reflect.Uint:
			emit(func(v reflect.Value) {
				if y := v.Field(i).Uint() + 1; !v.Field(i).OverflowUint(y) {
					v.Field(i).SetUint(y)
				}
			})
			emit(func(v reflect.Value) { v.Field(i).SetUint(v.Field(i).Uint() &^ 0xffff_ffff) })
		case f.Kind() == reflect.String:
			s := f.String()
			if len(s) > 1 {
				emit(func(v reflect.Value) { v.Field(i).SetString(s[:len(s)-1]) })
				emit(func(v reflect.Value) { v.Field(i).SetString(s[1:]) })
				emit(func(v reflect.Value) { v.Field(i).SetString(s[:len(s)/2]) })
			}
			if len(s) > 0 && len(s) < 1<<16 {
				// the same text with another sign
				switch s[0] {
				case '-':
					emit(func(v reflect.Value) { v.Field(i).SetString("+" + s[1:]) })
				case '+':
					emit(func(v reflect.Value) { v.Field(i).SetString("-" + s[1:]) })
				default:
					emit(func(v reflect.Value) { v.Field(i).SetString("-" + s) })
				}
				emit(func(v reflect.Value) { v.Field(i).SetString(s + "0") })
				emit(func(v reflect.Value) { v.Field(i).SetString(s + s[len(s)-1:]) })
				b := []byte(s)
				b[len(b)-1] ^= 1 // neighbouring last character (digit 4 <-> 5, e <-> d)
				emit(func(v reflect.Value) { v.Field(i).SetString(string(b)) })
			}
		case f.Kind() == reflect.Slice && f.Type().Elem().Kind() == reflect.Uint8:
			n := f.Len()
			if n > 1 {
				emit(func(v reflect.Value) { v.Field(i).Set(v.Field(i).Slice(0, n-1)) })
				emit(func(v reflect.Value) { v.Field(i).Set(v.Field(i).Slice(1, n)) })
			}
			if n > 0 && n < 1<<16 {
				emit(func(v reflect.Value) {
					b := append([]byte(nil), v.Field(i).Bytes()...)
					b[len(b)-1] ^= 1
					v.Field(i).SetBytes(b)
				})
				emit(func(v reflect.Value) {
					b := append([]byte(nil), v.Field(i).Bytes()...)
					v.Field(i).SetBytes(append(b, 0))
				})
			}
		}
	}
	// one operand in place of the other, and both exchanged
	if len(dFields) >= 2 {
		i, j := dFields[0], dFields[1]
		emit(func(v reflect.Value) {
			x, y := v.Field(i).Interface(), v.Field(j).Interface()
			v.Field(i).Set(reflect.ValueOf(y))
			v.Field(j).Set(reflect.ValueOf(x))
		})
		emit(func(v reflect.Value) { v.Field(j).Set(v.Field(i)) })
		emit(func(v reflect.Value) { v.Field(i).Set(v.Field(j)) })
	}
	return out
}

// dSiblings returns bit patterns that share all but one component with d.
func dSiblings(d D) []D {
	out := []D{
		{d.Hi ^ 1<<63, d.Lo},                 // other sign
		{d.Hi, d.Lo ^ 1},                     // last unit of the coefficient
		{d.Hi, 0},                            // low word cleared (coefficient a multiple of 2^64)
		{d.Hi, ^d.Lo},                        // same high word, unrelated low word
		{d.Hi ^ 0x0000_0000_0001_0001, d.Lo}, // same low word, neighbouring high coefficient word
	}
	n := d.Num()
	if n.Class != ref.Finite {
		return out
	}
	// high coefficient word cleared: a short operand after a long one
	if hi := new(big.Int).Rsh(n.Coef, 64); hi.Sign() != 0 {
		out = append(out, DFin(n.Neg, new(big.Int).SetUint64(d.Lo), n.Exp))
	}
	// same coefficient, other exponents
	for _, de := range []int{1, -1, 19, -35} {
		if e := n.Exp + de; e >= ref.Emin && e <= ref.Emax {
			out = append(out, DFin(n.Neg, n.Coef, e))
		}
	}
	// same value, neighbouring cohort members
	if c10 := new(big.Int).Mul(n.Coef, ref.Ten); c10.Cmp(ref.Cmax) <= 0 && n.Exp-1 >= ref.Emin {
		out = append(out, DFin(n.Neg, c10, n.Exp-1))
	}
	if q, r := new(big.Int).QuoRem(n.Coef, ref.Ten, new(big.Int)); r.Sign() == 0 && n.Exp+1 <= ref.Emax && n.Coef.Sign() != 0 {
		out = append(out, DFin(n.Neg, q, n.Exp+1))
	}
	return out
}

// primedUnderAnotherMode makes the same call under a different DefaultRoundingMode first (for half of the cases,
// chosen by h) and discards the result: a conversion that rounds by DefaultRoundingMode must sample it at every
// call, so an earlier call under another mode may not change what the call under test returns (a memo keyed by the
// argument alone, or a mode remembered at first use, would).
func primedUnderAnotherMode(h uint64, call func()) {
	h = splitmix(h)
	if h&1 == 0 {
		return
	}
	withDefaultMode(ref.Modes[1+int(h>>1)%5], call)
}
