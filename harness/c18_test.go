package harness

import (
	"math"
	"math/big"
	"testing"

	d128 "github.com/woodsbury/decimal128"
	"pgregory.net/rapid"

	"verif/harness/bigfl"
	"verif/harness/ref"
)

// C18 — Pow is exact on its shortcut cases and accurate elsewhere.

type c18Args struct {
	X, Y D
}

// intValue returns y as an integer when it is one (and not astronomically large), plus its parity.
func intInfo(n ref.Num) (isInt bool, odd bool, small *big.Int) {
	if n.Class != ref.Finite {
		return false, false, nil
	}
	if n.IsZero() {
		return true, false, new(big.Int)
	}
	tz := ref.TrailingZeros(n.Coef)
	c := new(big.Int).Quo(n.Coef, ref.Pow10(tz))
	e := n.Exp + tz
	if e < 0 {
		return false, false, nil
	}
	if e > 0 {
		if e <= 40 {
			small = new(big.Int).Mul(c, ref.Pow10(e))
		}
		return true, false, small
	}
	return true, c.Bit(0) == 1, c
}

// pow10Info: is |x| exactly 10^k?
func pow10Info(n ref.Num) (bool, int) {
	if n.Class != ref.Finite || n.IsZero() {
		return false, 0
	}
	tz := ref.TrailingZeros(n.Coef)
	if new(big.Int).Quo(n.Coef, ref.Pow10(tz)).Cmp(ref.One) != 0 {
		return false, 0
	}
	return true, n.Exp + tz
}

func numOne(neg bool) ref.Num { return ref.Num{Class: ref.Finite, Neg: neg, Coef: big.NewInt(1)} }

var c18 = Register("C18", "C18.pow", func(a c18Args) *Violation {
	st := S("C18", "pow")
	st.Eval(1)
	nx, ny := a.X.Num(), a.Y.Num()
	if nx.Class != ref.Finite || ny.Class != ref.Finite || nx.IsZero() {
		return nil // special operands: C15
	}
	x, y := a.X.Dec(), a.Y.Dec()
	yInt, yOdd, ySmall := intInfo(ny)
	isP10, k := pow10Info(nx)
	klass := ""
	var lnx, t, tol *big.Float
	expectInf, expectZero := false, false
	general := false

	for _, m := range loopModes() {
		got := x.PowWithMode(y, m)
		g := ref.Decode(got)
		var got2 d128.Decimal
		withDefaultMode(m, func() { got2 = x.Pow(y) })
		if got2 != got && !(got.IsNaN() && got2.IsNaN()) {
			return violf("Pow(%s, %s) under DefaultRoundingMode=%v gives %s, PowWithMode gives %s", nx, ny, m, ref.Decode(got2), g)
		}
		accept := func(wants ...ref.Num) *Violation {
			for _, w := range wants {
				if ref.SameVal(g, w) {
					return nil
				}
			}
			return violf("Pow(%s, %s) mode %v = %s, want %s", nx, ny, m, g, wants[0])
		}
		switch {
		case ny.IsZero():
			klass = "y=0"
			if v := accept(numOne(false)); v != nil {
				return v
			}
		case ref.CmpNum(nx, numOne(false)) == 0:
			klass = "x=1"
			if v := accept(numOne(false)); v != nil {
				return v
			}
		case ref.CmpNum(ny, numOne(false)) == 0:
			klass = "y=1"
			if v := accept(nx); v != nil {
				return v
			}
		case ref.CmpNum(ny, numOne(true)) == 0:
			klass = "y=-1"
			rc := ref.X{Neg: nx.Neg, Num: ref.One, Den: nx.Coef, Exp: -nx.Exp}
			if v := accept(ref.RoundX(rc, m, true), ref.RoundX(rc, m, false)); v != nil {
				return v
			}
		case nx.Neg && !yInt:
			klass = "negative-base-non-integer-exponent"
			if g.Class != ref.NaN {
				return violf("Pow(%s, %s) mode %v = %s, want NaN (negative base, non-integer exponent)", nx, ny, m, g)
			}
		case isP10 && !nx.Neg && yInt && !ny.Neg && ySmall != nil:
			// exact power of ten
			klass = "power-of-ten^integer"
			ky := new(big.Int).Mul(big.NewInt(int64(k)), ySmall)
			if v := acceptPow10(g, ky, false, m, accept); v != nil {
				return v
			}
		case isP10 && !nx.Neg && k%2 == 0 && isHalf(ny):
			klass = "even-power-of-ten^(+-1/2)"
			e := k / 2
			if ny.Neg {
				e = -e
			}
			if v := acceptPow10(g, big.NewInt(int64(e)), false, m, accept); v != nil {
				return v
			}
		default:
			general = true
			resNeg := nx.Neg && yOdd
			if t == nil && !expectInf && !expectZero {
				ax := bigfl.FromDec(false, nx.Coef, nx.Exp)
				fy := bigfl.FromDec(ny.Neg, ny.Coef, ny.Exp)
				lnx = bigfl.Log(ax)
				// decimal exponent of the result: y * log10|x|
				l10 := new(big.Float).SetPrec(bigfl.Prec).Quo(lnx, bigfl.Ln10)
				l10.Mul(l10, fy)
				lf, _ := l10.Float64()
				switch {
				case lf > 6150:
					expectInf = true
				case lf < -6185:
					expectZero = true
				default:
					t = bigfl.Pow(ax, fy)
					// tolerance: one ulp + |t| * |y| * (4e-37 * |ln|x|| + 1e-55)
					q := quantumOfFloat(t)
					rel := new(big.Float).SetPrec(bigfl.Prec).Abs(lnx)
					rel.Mul(rel, new(big.Float).SetPrec(bigfl.Prec).Quo(big.NewFloat(4), bigfl.Pow10(37)))
					rel.Add(rel, bigfl.Pow10(-55))
					rel.Mul(rel, new(big.Float).Abs(fy))
					rel.Mul(rel, t)
					tol = new(big.Float).SetPrec(bigfl.Prec).Add(bigfl.Pow10(q), rel)
					tol.Mul(tol, big.NewFloat(1.000000001))
				}
			}
			switch {
			case expectInf:
				klass = "general/overflow"
				if g.Class != ref.Inf || g.Neg != resNeg {
					return violf("Pow(%s, %s) mode %v = %s, the exact power is beyond the largest Decimal", nx, ny, m, g)
				}
			case expectZero:
				klass = "general/underflow"
				if !g.IsZero() || g.Neg != resNeg {
					return violf("Pow(%s, %s) mode %v = %s, the exact power is below the smallest Decimal", nx, ny, m, g)
				}
			default:
				klass = "general"
				if g.Class == ref.NaN {
					return violf("Pow(%s, %s) mode %v = NaN", nx, ny, m)
				}
				if g.Neg != resNeg && !(g.IsZero() && false) {
					return violf("Pow(%s, %s) mode %v = %s has the wrong sign (want (-1)^y = %v)", nx, ny, m, g, resNeg)
				}
				if g.Class == ref.Inf {
					// only when the exact power (within tolerance) exceeds the largest finite value
					edge := new(big.Float).SetPrec(bigfl.Prec).Sub(maxFinite, tol)
					if t.Cmp(edge) < 0 {
						return violf("Pow(%s, %s) mode %v = %s but the exact power %s is representable", nx, ny, m, g, t.Text('e', 40))
					}
					st.Class("general/overflow-edge")
				} else {
					r := bigfl.FromDec(false, g.Coef, g.Exp)
					diff := new(big.Float).SetPrec(bigfl.Prec).Sub(r, t)
					if diff.Abs(diff).Cmp(tol) > 0 {
						u := bigfl.Pow10(quantumOfFloat(t))
						ratio, _ := new(big.Float).Quo(diff, u).Float64()
						return violf("Pow(%s, %s) mode %v = %s, exact %s: error %.4g ulp exceeds the stated tolerance", nx, ny, m, g, t.Text('e', 45), ratio)
					}
					u := bigfl.Pow10(quantumOfFloat(t))
					ratio, _ := new(big.Float).Quo(diff, tol).Float64()
					st.NoteMax("max_error_over_tolerance", ratio)
					ulps, _ := new(big.Float).Quo(diff, u).Float64()
					st.NoteMax("max_error_ulp", ulps)
				}
			}
		}
	}
	st.Class(klass)
	if general {
		if nx.Neg {
			st.Class("general/negative-base-integer-exponent")
		}
		st.NT(hashWords(a.X.Hi, a.X.Lo, a.Y.Hi, a.Y.Lo), func() any {
			return map[string]any{"x": nx.String(), "y": ny.String(), "class": klass}
		})
	} else if klass == "power-of-ten^integer" || klass == "even-power-of-ten^(+-1/2)" || klass == "y=-1" {
		st.NT(hashWords(a.X.Hi, a.X.Lo, a.Y.Hi, a.Y.Lo), func() any {
			return map[string]any{"x": nx.String(), "y": ny.String(), "class": klass}
		})
	}
	return nil
})

func isHalf(n ref.Num) bool {
	half := ref.Num{Class: ref.Finite, Coef: big.NewInt(5), Exp: -1}
	n.Neg = false
	return ref.CmpNum(n, half) == 0
}

// acceptPow10 checks a result that must be exactly 10^e (e a big integer).
func acceptPow10(g ref.Num, e *big.Int, neg bool, m d128.RoundingMode, accept func(...ref.Num) *Violation) *Violation {
	switch {
	case e.Cmp(big.NewInt(6145)) > 0:
		return accept(ref.Num{Class: ref.Inf, Neg: neg})
	case e.Cmp(big.NewInt(-6178)) < 0:
		return accept(ref.Num{Class: ref.Finite, Neg: neg, Coef: new(big.Int)})
	}
	x := ref.X{Neg: neg, Num: ref.One, Den: ref.One, Exp: int(e.Int64())}
	return accept(ref.RoundX(x, m, true), ref.RoundX(x, m, false))
}

func genPowPair(t *rapid.T) (D, D) {
	smallInt := func() D {
		return genCohortMember(t, DFin(genSign(t), bi(int64(ir(t, 0, 60, "n"))), 0))
	}
	switch ir(t, 0, 11, "powKind") {
	case 0:
		// y in {0, 1, -1} in any cohort
		y := []D{DFin(false, new(big.Int), 0), DFin(true, new(big.Int), 5), DFin(false, bi(1), 0), DFin(true, bi(1), 0)}[ir(t, 0, 3, "y")]
		return genFiniteNZ(t), genCohortMember(t, y)
	case 1, 2:
		// powers of ten (any cohort) with integer exponents around the range limits, or +-1/2
		k := ir(t, -40, 40, "k")
		if ir(t, 0, 2, "unit") == 0 {
			k = []int{1, -1, 2, -2}[ir(t, 0, 3, "ku")]
		}
		x := genCohortMember(t, DFin(false, bi(1), k))
		if ir(t, 0, 4, "half") == 0 {
			return x, genCohortMember(t, DFin(genSign(t), bi(5), -1))
		}
		if ir(t, 0, 7, "hugeY") == 0 {
			// integer exponents of two words (the shortcut's range test has to look at both), possibly written
			// with trailing zeros
			return x, DFin(genSign(t), genWordStructured(t), ir(t, 0, 2, "ytz"))
		}
		var yv int
		if k != 0 && ir(t, 0, 1, "edge") == 0 {
			target := genNear(t, 40, 6111, 6144, 6145, -6176, -6177, 6176, 0)
			yv = target / k
			if yv < 0 {
				yv = -yv
			}
			yv += ir(t, -1, 1, "off")
			if yv < 0 {
				yv = 0
			}
		} else {
			yv = ir(t, 0, 7000, "yv")
		}
		return x, genCohortMember(t, DFin(false, bi(int64(yv)), 0))
	case 3:
		// negative base: integer (odd, even, large) and non-integer exponents
		c := genDigits(t, ir(t, 1, 8, "len"))
		x := DFin(true, c, ir(t, -8, 3, "e"))
		switch ir(t, 0, 3, "yKind") {
		case 0:
			return x, smallInt()
		case 1:
			return x, DFin(genSign(t), genDigits(t, ir(t, 1, 6, "ylen")), ir(t, 0, 25, "yexp")) // large (even) integers
		case 2:
			return x, DFin(genSign(t), bi(int64(2*ir(t, 0, 40, "h")+1)*5), -1) // half-integers
		}
		return x, DFin(genSign(t), genDigits(t, ir(t, 1, 10, "ylen")), -ir(t, 1, 12, "yfrac"))
	case 4:
		// base near one with a huge exponent
		k := ir(t, 5, 33, "k")
		c := new(big.Int).Add(ref.Pow10(k), bi(int64(ir(t, -9, 9, "j"))))
		x := DFin(false, c, -k)
		ymag := ir(t, k-3, k+4, "ymag")
		return x, DFin(genSign(t), genDigits(t, ir(t, 1, 8, "ylen")), ymag-4)
	case 5, 6:
		// moderate base, integer / half-integer / arbitrary exponent
		c := genDigits(t, ir(t, 1, 34, "len"))
		x := DFin(false, c, ir(t, -40, 10, "e")-ref.DecLen(c)+1)
		switch ir(t, 0, 2, "yKind") {
		case 0:
			return x, smallInt()
		case 1:
			return x, DFin(genSign(t), bi(int64(2*ir(t, 0, 200, "h")+1)*5), -1)
		}
		return x, DFin(genSign(t), genDigits(t, ir(t, 1, 20, "ylen")), -ir(t, 0, 22, "yfrac"))
	case 7, 8:
		// results steered to the overflow / underflow thresholds: y * log10 x ~ +-6144..6177
		c := genDigits(t, ir(t, 1, 20, "len"))
		ex := ir(t, -30, 30, "e")
		x := DFin(false, c, ex-ref.DecLen(c)+1)
		l10 := float64(ex) + math.Log10(float64(c.Int64()%1000000000+1)/math.Pow(10, float64(len(c.String())-1)))
		if fc, _ := new(big.Float).SetInt(c).Float64(); fc > 0 {
			l10 = float64(ex-ref.DecLen(c)+1) + math.Log10(fc)
		}
		if math.Abs(l10) < 1e-3 {
			l10 = 1
		}
		target := float64(genNear(t, 3, 6144, 6145, -6176, -6177, 6111, -6143)) + float64(ir(t, -999, 999, "frac"))/1000
		if ir(t, 0, 5, "farOut") == 0 {
			// far beyond the range: the internal 16-bit exponent must not wrap (decimal exponents around +-32768 .. +-43429)
			target = float64(genNear(t, 600, 32768, 43429, 16384, 65536, 30000)) * float64(1-2*ir(t, 0, 1, "neg"))
		}
		yv := target / l10
		ys := new(big.Float).SetFloat64(yv).Text('e', 16)
		f, _, _ := big.ParseFloat(ys, 10, 200, big.ToNearestEven)
		// y as a 17-digit decimal
		neg := f.Sign() < 0
		f.Abs(f)
		e10 := int(math.Floor(math.Log10(math.Abs(yv)))) - 16
		sc := new(big.Float).SetPrec(200).Quo(f, new(big.Float).SetPrec(200).SetInt(ref.Pow10(max(e10, 0))))
		if e10 < 0 {
			sc = new(big.Float).SetPrec(200).Mul(f, new(big.Float).SetPrec(200).SetInt(ref.Pow10(-e10)))
		}
		yi, _ := sc.Int(nil)
		return x, DFin(neg, capCoef(yi), clampExp(e10))
	case 9:
		// extreme bases and exponents (analytic overflow / underflow)
		if ir(t, 0, 1, "extremeY") == 0 {
			// exponents of any magnitude: y*ln(x) overflows every internal counter, or vanishes
			return genFiniteNZ(t), DFin(genSign(t), genCoef(t), genExp(t))
		}
		return DFin(genSign(t), genCoef(t), genExp(t)), DFin(genSign(t), genCoef(t), ir(t, -40, 40, "ye"))
	case 10:
		if ir(t, 0, 2, "boundary") == 0 {
			// exact powers that land on 2^110 * 10^k, where the spacing of the format changes
			pairs := [][2]int64{{2, 110}, {4, 55}, {32, 22}, {1024, 11}, {2048, 10}, {1048576, 5}}
			p := pairs[ir(t, 0, len(pairs)-1, "pair")]
			x := genCohortMember(t, DFin(genSign(t), bi(p[0]), ir(t, -3, 3, "shift")))
			return x, genCohortMember(t, DFin(genSign(t), bi(p[1]), 0))
		}
		// x = 2, 3, 5, 7 ... with integer exponents: exact results representable
		return DFin(false, bi(int64(ir(t, 2, 99, "b"))), 0), DFin(false, bi(int64(ir(t, 2, 40, "n"))), 0)
	}
	return genFiniteNZ(t), genFinite(t)
}

func TestC18_Pow(t *testing.T) {
	runRapid(t, 40000, 900000, func(t *rapid.T) {
		x, y := genPowPair(t)
		c18.Run(t, c18Args{X: x, Y: y})
	})
}
