package harness

import (
	"bytes"
	"fmt"
	"math"
	"math/big"
	"strconv"
	"strings"
	"testing"

	d128 "github.com/woodsbury/decimal128"
	"pgregory.net/rapid"

	"verif/harness/ref"
	"verif/harness/refmt"
)

// C07 — formatting with a precision rounds half-even and lays out like float64.

type c07Args struct {
	V    D
	Spec string // flags, width, precision, verb — without the leading '%'
	Pre  string // prefix already in the buffer handed to Append
	Cap  int    // extra capacity of that buffer
}

// parseSpec is the harness's own reading of a format spec (flags in any order,
// decimal width, optional .precision, one verb).
func parseSpec(s string) (sp refmt.Spec, ok bool) {
	i := 0
flags:
	for ; i < len(s); i++ {
		switch s[i] {
		case '+':
			sp.Plus = true
		case '-':
			sp.Minus = true
		case '#':
			sp.Sharp = true
		case ' ':
			sp.Space = true
		case '0':
			sp.Zero = true
		default:
			break flags
		}
	}
	j := i
	for j < len(s) && s[j] >= '0' && s[j] <= '9' {
		j++
	}
	if j > i {
		sp.HasWid = true
		sp.Wid, _ = strconv.Atoi(s[i:j])
	}
	i = j
	if i < len(s) && s[i] == '.' {
		i++
		j = i
		for j < len(s) && s[j] >= '0' && s[j] <= '9' {
			j++
		}
		sp.HasPrec = true
		sp.Prec, _ = strconv.Atoi(s[i:j])
		i = j
	}
	if i != len(s)-1 {
		return sp, false
	}
	sp.Verb = s[i]
	return sp, strings.IndexByte("eEfFgG", sp.Verb) >= 0
}

// digitsOf returns the significant digits of a finite value and the position
// of the decimal point (value = 0.DIGITS * 10^dp), as strconv's decimal type.
func digitsOf(n ref.Num) (digs string, dp int) {
	if n.Coef.Sign() == 0 {
		return "", 0
	}
	full := n.Coef.String()
	return strings.TrimRight(full, "0"), n.Exp + len(full)
}

// exactFloat64 returns the float64 holding exactly n's value, if there is one.
func exactFloat64(n ref.Num) (float64, bool) {
	if n.Coef.Sign() == 0 {
		if n.Neg {
			return math.Copysign(0, -1), true
		}
		return 0, true
	}
	if n.Exp > 40 || n.Exp < -60 {
		return 0, false
	}
	r := ref.XOf(n).Rat()
	f, exact := r.Float64()
	if !exact || math.IsInf(f, 0) {
		return 0, false
	}
	return f, true
}

var c07 = Register("C07", "C07.format", func(a c07Args) *Violation {
	st := S("C07", "format")
	st.Eval(1)
	sp, ok := parseSpec(a.Spec)
	n := a.V.Num()
	if !ok || n.Class != ref.Finite {
		return nil
	}
	d := a.V.Dec()
	digs, dp := digitsOf(n)
	got := fmt.Sprintf("%"+a.Spec, d)
	// (1) reference layout over the exact digits
	want := refmt.Format(n.Neg, digs, dp, sp)
	if got != want {
		return violf("Sprintf(%%%s, %s) = %q, want %q", a.Spec, n, abbr(got), abbr(want))
	}
	// (2) the statement's own comparison, where a float64 can hold the value
	if f, exact := exactFloat64(n); exact && (sp.HasPrec || len(digs) <= 15) {
		if fw := fmt.Sprintf("%"+a.Spec, f); got != fw {
			return violf("Sprintf(%%%s, %s) = %q, float64 %v prints %q", a.Spec, n, got, f, fw)
		}
		st.Class("float64-image-compared")
	}
	// (3) Decimal.Append equals Sprintf, for every buffer shape
	pre := []byte(a.Pre)
	buf := make([]byte, len(pre), len(pre)+a.Cap)
	copy(buf, pre)
	out := d.Append(buf, a.Spec)
	if string(out) != a.Pre+got {
		return violf("%s.Append(buf=%q cap+%d, %q) = %q, want %q", n, a.Pre, a.Cap, a.Spec, abbr(string(out)), abbr(a.Pre+got))
	}
	if !bytes.Equal(buf[:len(pre)], pre) {
		return violf("%s.Append(buf=%q, %q) changed the caller's bytes to %q", n, a.Pre, a.Spec, buf[:len(pre)])
	}
	if outNil := d.Append(nil, a.Spec); string(outNil) != got {
		return violf("%s.Append(nil, %q) = %q, Sprintf gives %q", n, a.Spec, abbr(string(outNil)), abbr(got))
	}
	// (4) package-level Format / Append agree with the flag-less spec
	if sp.HasPrec && sp.Verb != 'F' {
		plain := fmt.Sprintf("%."+strconv.Itoa(sp.Prec)+string(sp.Verb), d)
		if fs := d128.Format(d, sp.Verb, sp.Prec); fs != plain {
			return violf("Format(%s, %q, %d) = %q, Sprintf gives %q", n, sp.Verb, sp.Prec, abbr(fs), abbr(plain))
		}
		pbuf := make([]byte, len(pre), len(pre)+a.Cap)
		copy(pbuf, pre)
		if as := d128.Append(pbuf, d, sp.Verb, sp.Prec); string(as) != a.Pre+plain {
			return violf("Append(%q, %s, %q, %d) = %q, want %q", a.Pre, n, sp.Verb, sp.Prec, abbr(string(as)), abbr(a.Pre+plain))
		}
	}
	// classification
	nd := len(digs)
	kept := nd
	prec := sp.Prec
	if !sp.HasPrec {
		prec = 6
	}
	switch sp.Verb {
	case 'e', 'E':
		kept = prec + 1
	case 'f', 'F':
		kept = dp + prec
	default:
		if sp.HasPrec {
			kept = max(prec, 1)
		} else {
			kept = nd
		}
	}
	nt := false
	if kept < nd {
		nt = true
		st.Class("rounds")
		if kept >= 0 && digs[max(kept, 0)] == '5' && kept+1 == nd {
			st.Class("tie")
			if kept <= 0 {
				st.Class("tie-with-empty-prefix")
			}
		}
		if kept > 0 && strings.Trim(digs[:kept], "9") == "" && digs[kept] >= '5' {
			st.Class("carry-chain")
		}
	}
	if sp.HasWid && sp.Wid > len(strings.TrimSpace(got)) {
		nt = true
		st.Class("padded")
	}
	if sp.Plus || sp.Space || sp.Sharp {
		nt = true
	}
	if a.Pre != "" {
		st.Class("append-to-nonempty-buffer")
	}
	st.Class("verb-" + string(sp.Verb))
	if nt {
		st.NT(hashWords(a.V.Hi, a.V.Lo, hashString(a.Spec), hashString(a.Pre), uint64(a.Cap)), func() any {
			return map[string]any{"d": n.String(), "spec": a.Spec, "out": abbr(got)}
		})
	}
	return nil
})

// ---- the reference formatter is itself checked against the installed fmt ----

type c07RefArgs struct {
	Bits uint64
	Spec string
}

func refmtAgainstFmt(a c07RefArgs) string {
	sp, ok := parseSpec(a.Spec)
	f := math.Float64frombits(a.Bits)
	if !ok || math.IsNaN(f) || math.IsInf(f, 0) {
		return ""
	}
	r := new(big.Rat).SetFloat64(math.Abs(f))
	if r.Denom().BitLen() > 70 || r.Num().BitLen() > 200 {
		return ""
	}
	s := r.FloatString(80)
	ip, fp, _ := strings.Cut(s, ".")
	all := ip + strings.TrimRight(fp, "0")
	dp := len(ip)
	for len(all) > 0 && all[0] == '0' {
		all = all[1:]
		dp--
	}
	all = strings.TrimRight(all, "0")
	if all == "" {
		dp = 0
	}
	if !sp.HasPrec && len(all) > 15 {
		return "" // float64's shortest representation is not the exact expansion there
	}
	want := fmt.Sprintf("%"+a.Spec, f)
	got := refmt.Format(math.Signbit(f), all, dp, sp)
	if got != want {
		return fmt.Sprintf("reference formatter disagrees with the installed fmt: %%%s of %v: refmt %q, fmt %q", a.Spec, f, got, want)
	}
	return "ok"
}

// ---- generators ----------------------------------------------------------------

func genSpec(t *rapid.T) string {
	var b strings.Builder
	// every subset of the five flags, in random order, occasionally repeated
	mask := ir(t, 0, 31, "flagMask")
	order := u64(t, "flagOrder")
	flags := []byte("+-# 0")
	for i := len(flags) - 1; i > 0; i-- {
		j := int(order % uint64(i+1))
		order /= uint64(i + 1)
		flags[i], flags[j] = flags[j], flags[i]
	}
	for _, c := range flags {
		idx := strings.IndexByte("+-# 0", c)
		if mask>>uint(idx)&1 == 1 {
			b.WriteByte(c)
		}
	}
	switch ir(t, 0, 3, "widKind") {
	case 1, 2:
		b.WriteString(strconv.Itoa(ir(t, 1, 40, "wid")))
	case 3:
		b.WriteString(strconv.Itoa(ir(t, 1, 12, "widSmall")))
	}
	switch ir(t, 0, 4, "precKind") {
	case 1, 2:
		b.WriteString("." + strconv.Itoa(ir(t, 0, 40, "prec")))
	case 3:
		b.WriteString("." + strconv.Itoa(ir(t, 0, 6, "precSmall")))
	case 4:
		b.WriteString(".") // "%.f" means precision 0
	}
	b.WriteByte("eEfFgG"[ir(t, 0, 5, "verb")])
	return b.String()
}

// genForFormat draws finite values whose rounding at the drawn precision is
// interesting, together with the spec.
func genForFormat(t *rapid.T) (D, string) {
	spec := genSpec(t)
	sp, _ := parseSpec(spec)
	prec := sp.Prec
	if !sp.HasPrec {
		prec = 6
	}
	switch ir(t, 0, 9, "valKind") {
	case 0, 1:
		return genFinite(t), spec
	case 2:
		// exact float64 images: k * 2^-j and small * 10^n
		if ir(t, 0, 1, "dyadic") == 0 {
			j := ir(t, 0, 30, "j")
			k := bi(int64(ir(t, 0, 1<<20, "k")))
			c := new(big.Int).Mul(k, pow(5, j))
			return DFin(genSign(t), capCoef(c), -j), spec
		}
		return DFin(genSign(t), bi(int64(ir(t, 0, 99999, "small"))), ir(t, -3, 15, "n")), spec
	case 3, 4, 5:
		// a tie / near-tie / carry chain exactly at the position the spec selects
		var keep int            // digits kept
		x := ir(t, -8, 30, "x") // exponent of the leading digit
		switch sp.Verb {
		case 'e', 'E':
			keep = prec + 1
		case 'f', 'F':
			if ir(t, 0, 3, "emptyPrefix") == 0 {
				x = -1 - prec - ir(t, 0, 1, "below") // nothing (or less than nothing) is kept: 0.5 at %.0f
			}
			keep = x + 1 + prec
		default:
			keep = max(prec, 1)
		}
		if keep < 0 {
			keep = 0
		}
		if keep > 33 {
			keep = 33
		}
		var head string
		if keep > 0 {
			if ir(t, 0, 2, "nines") == 0 {
				head = strings.Repeat("9", keep)
			} else {
				head = genDigits(t, keep).String()
			}
		}
		tail := []string{"5", "5", "49", "51", "4", "6", "500001", "499999"}[ir(t, 0, 7, "tail")]
		digits := head + tail
		c, _ := new(big.Int).SetString(digits, 10)
		c = capCoef(c)
		// value = 0.head tail... placed so that its leading digit has exponent x
		return DFin(genSign(t), c, clampExp(x-len(c.String())+1)), spec
	case 6:
		// leading-digit exponent around the %g switch-over (-4 and the precision)
		c := genCoef(t)
		if c.Sign() == 0 {
			c = bi(1)
		}
		x := genNear(t, 2, -5, -4, prec, prec-1, 6, 21)
		return DFin(genSign(t), c, clampExp(x-ref.DecLen(c)+1)), spec
	case 7:
		return genZero(t), spec
	case 8:
		// precision exceeding the digit count
		return DFin(genSign(t), genDigits(t, ir(t, 1, 6, "len")), ir(t, -10, 10, "e")), spec
	}
	c := genCoef(t)
	return DFin(genSign(t), c, ir(t, -45, 45, "e")), spec
}

func TestC07_Format(t *testing.T) {
	runRapid(t, 100000, 5000000, func(t *rapid.T) {
		v, spec := genForFormat(t)
		a := c07Args{V: v, Spec: spec}
		switch ir(t, 0, 4, "bufKind") {
		case 1:
			a.Cap = ir(t, 0, 80, "cap") // empty with capacity
		case 2:
			a.Pre = []string{"pre", "x", "value=", "0000000000000000000000000000000000000000"}[ir(t, 0, 3, "pre")]
		case 3:
			a.Pre = []string{"pre", "x", "value=", "[[[[[[[[[[[[[[[[[[[["}[ir(t, 0, 3, "pre")]
			a.Cap = ir(t, 0, 80, "cap")
		}
		c07.Run(t, a)
	})
}

// TestC07_Refmt validates the reference formatter against the installed fmt
// on float64 values with exact, short decimal expansions. A disagreement is a
// harness/toolchain problem, not a property violation, and is reported as such
// (no replay file is written, so the driver exits 2).
func TestC07_Refmt(t *testing.T) {
	st := S("C07", "refmt-vs-installed-fmt")
	runRapid(t, 60000, 1000000, func(t *rapid.T) {
		var f float64
		switch ir(t, 0, 5, "kind") {
		case 0:
			f = float64(ir(t, 0, 1<<20, "k")) / float64(uint64(1)<<uint(ir(t, 0, 20, "j")))
		case 1:
			f = float64(ir(t, 0, 100, "k")) / float64(uint64(1)<<uint(ir(t, 0, 8, "j")))
		case 2:
			f = float64(u64(t, "k")>>24) * float64(uint64(1)<<uint(ir(t, 0, 30, "j")))
		case 3:
			f = float64(ir(t, 0, 1000, "k")) * math.Pow(10, float64(ir(t, 0, 20, "p")))
		case 4:
			f = float64(u64(t, "k")>>11) / float64(uint64(1)<<uint(ir(t, 0, 60, "j")))
		default:
			f = float64(ir(t, 0, 99999, "k")) / math.Pow(10, float64(ir(t, 0, 8, "p")))
		}
		if ir(t, 0, 1, "neg") == 1 {
			f = -f
		}
		a := c07RefArgs{Bits: math.Float64bits(f), Spec: genSpec(t)}
		switch res := refmtAgainstFmt(a); res {
		case "":
			st.Class("skipped")
		case "ok":
			st.Eval(1)
		default:
			t.Fatalf("HARNESS: %s", res)
		}
	})
}
