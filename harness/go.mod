module verif/harness

go 1.23

require (
	github.com/woodsbury/decimal128 v0.0.0
	pgregory.net/rapid v1.3.0
)

replace github.com/woodsbury/decimal128 => /repo
