package harness

import (
	"math/big"
	"testing"

	d128 "github.com/woodsbury/decimal128"
	"pgregory.net/rapid"

	"verif/harness/ref"
)

// C03 — QuoRem returns the truncated integer quotient and the exact remainder.

type c03Args struct {
	X, Y D
}

var c03 = Register("C03", "C03.quorem", func(a c03Args) *Violation {
	st := S("C03", "quorem")
	st.Eval(1)
	x, y := a.X.Dec(), a.Y.Dec()
	nx, ny := a.X.Num(), a.Y.Num()
	if nx.Class == ref.NaN || ny.Class == ref.NaN {
		return nil // NaN operands: C15
	}
	special := nx.Class != ref.Finite || ny.Class != ref.Finite || ny.IsZero()

	var qInt, rInt *big.Int // magnitudes at exponent e
	var e int
	if !special {
		e = min(nx.Exp, ny.Exp)
		X := new(big.Int).Mul(nx.Coef, ref.Pow10(nx.Exp-e))
		Y := new(big.Int).Mul(ny.Coef, ref.Pow10(ny.Exp-e))
		qInt, rInt = new(big.Int).QuoRem(X, Y, new(big.Int))
	}
	for _, m := range loopModes() {
		q, r := x.QuoRemWithMode(y, m)
		gq, gr := ref.Decode(q), ref.Decode(r)
		if special {
			st.Class("special")
			switch {
			case nx.Class == ref.Finite && ny.Class == ref.Inf:
				if !gq.IsZero() {
					return violf("QuoRem(%s, %s) mode %v: quotient %s, want a zero", nx, ny, m, gq)
				}
				if !ref.SameVal(gr, nx) {
					return violf("QuoRem(%s, %s) mode %v: remainder %s, want x", nx, ny, m, gr)
				}
			case nx.Class == ref.Inf && ny.Class == ref.Inf, nx.IsZero() && ny.IsZero():
				if gq.Class != ref.NaN || gr.Class != ref.NaN {
					return violf("QuoRem(%s, %s) mode %v = (%s, %s), want (NaN, NaN)", nx, ny, m, gq, gr)
				}
			default: // zero divisor with non-zero finite/inf dividend, or infinite dividend
				if gq.Class != ref.Inf || gr.Class != ref.NaN {
					return violf("QuoRem(%s, %s) mode %v = (%s, %s), want (Inf, NaN)", nx, ny, m, gq, gr)
				}
				if gq.Neg != (nx.Neg != ny.Neg) {
					return violf("QuoRem(%s, %s) mode %v: quotient %s has the wrong sign", nx, ny, m, gq)
				}
			}
			continue
		}
		// remainder: exact, sign of x
		if gr.Class != ref.Finite {
			return violf("QuoRem(%s, %s) mode %v: remainder %s is not finite", nx, ny, m, gr)
		}
		if gr.Neg != nx.Neg {
			return violf("QuoRem(%s, %s) mode %v: remainder %s does not carry the sign of x", nx, ny, m, gr)
		}
		wantR := ref.X{Neg: nx.Neg, Num: rInt, Den: ref.One, Exp: e}
		if !(rInt.Sign() == 0 && gr.IsZero()) && !(rInt.Sign() != 0 && ref.EqualsX(gr, wantR)) {
			return violf("QuoRem(%s, %s) mode %v: remainder %s, want exactly %s", nx, ny, m, gr, abbr(wantR.String()))
		}
		// quotient
		if qInt.Sign() == 0 {
			if !gq.IsZero() {
				return violf("QuoRem(%s, %s) mode %v: quotient %s, want zero", nx, ny, m, gq)
			}
			continue
		}
		qx := ref.X{Neg: nx.Neg != ny.Neg, Num: qInt, Den: ref.One, Exp: 0}
		want := ref.RoundX(qx, m, false)
		if !ref.SameVal(gq, want) {
			return violf("QuoRem(%s, %s) mode %v: quotient %s, want %s (trunc(x/y) = %s)", nx, ny, m, gq, want, abbr(qx.String()))
		}
		// mode-less form
		var q2, r2 d128.Decimal
		withDefaultMode(m, func() { q2, r2 = x.QuoRem(y) })
		if q2 != q || r2 != r {
			return violf("QuoRem(%s, %s) under DefaultRoundingMode=%v differs from QuoRemWithMode", nx, ny, m)
		}
	}
	if special {
		return nil
	}
	if nx.IsZero() {
		st.Class("x-zero")
		return nil
	}
	if qInt.Sign() == 0 {
		st.Class("q=0")
		return nil
	}
	qx := ref.X{Num: qInt, Den: ref.One}
	switch {
	case ref.RoundX(qx, d128.ToZero, false).Class == ref.Inf:
		st.Class("q-overflows")
	case !ref.SameVal(ref.RoundX(qx, d128.ToZero, false), ref.RoundX(qx, d128.AwayFromZero, false)):
		st.Class("q-rounded")
	default:
		st.Class("q-fits")
	}
	if rInt.Sign() == 0 {
		st.Class("r=0")
	}
	if n := ref.DecLen(qInt); n > 1000 {
		st.Class("q>1000digits")
	} else if n > 35 {
		st.Class("q>35digits")
	}
	st.NT(hashWords(a.X.Hi, a.X.Lo, a.Y.Hi, a.Y.Lo), func() any {
		return map[string]any{"x": nx.String(), "y": ny.String(), "trunc(x/y)": abbr(qInt.String()), "r_units_of_1e": e, "r": abbr(rInt.String())}
	})
	return nil
})

func genQuoRemPair(t *rapid.T) (D, D) {
	switch ir(t, 0, 14, "pairKind") {
	case 14:
		// quotients at the very top of the range: a full coefficient over a one-digit divisor 6110..6112 exponents
		// below it (finite up to Cmax * 10^6111, an infinity just beyond)
		cx := fullCoef(t)
		cy := bi(int64([]int{1, 1, 2, 4, 5, 8, 3, 7, 9}[ir(t, 0, 8, "cy")]))
		ex := ir(t, ref.Emax-60, ref.Emax, "ex")
		ey := ex - ref.Emax - ir(t, -2, 2, "d")
		return DFin(genSign(t), cx, ex), DFin(genSign(t), cy, clampExp(ey))
	case 13:
		// a divisor that fills one word almost completely (10^19 .. 2^64) under a short dividend far above it: a
		// single round of the long division then yields 20 digits, i.e. a partial quotient of 2^64 or more
		cy := new(big.Int).Add(ref.Pow10(19), new(big.Int).SetUint64(u64(t, "cyLow")%8446744073709551615))
		cx := genDigits(t, ir(t, 1, 20, "cxLen"))
		if cx.Sign() == 0 {
			cx.SetInt64(45)
		}
		ey := genExp(t)
		g := ir(t, 20, 80, "gap")
		ex := ey + g
		if ex > ref.Emax {
			ex, ey = ref.Emax, ref.Emax-g
		}
		return DFin(genSign(t), cx, ex), DFin(genSign(t), cy, clampExp(ey))
	case 12:
		// a quotient longer than the format whose first 35 digits lie within 2^64 of the largest coefficient (the
		// hand-over between the stages of the long division and every "is there room for another digit" test
		// sit there): x = floor(Q * y / 10^dy) for Q = Cmax - r, r < 2^64, placed g exponents above y
		dy := ir(t, 1, 12, "dy")
		y := genDigits(t, dy)
		if y.Sign() == 0 {
			y.SetInt64(7)
		}
		q := new(big.Int).Sub(ref.Cmax, new(big.Int).SetUint64(u64(t, "r")>>uint(ir(t, 0, 63, "rShift"))))
		cx := new(big.Int).Mul(q, y)
		cx.Quo(cx, ref.Pow10(ref.DecLen(y)))
		cx.Add(cx, bi(int64(ir(t, 0, 1, "up"))))
		cx = capCoef(cx)
		ey := genExp(t)
		g := ir(t, ref.DecLen(y)+1, ref.DecLen(y)+30, "gap")
		ex := ey + g
		if ex > ref.Emax {
			ex, ey = ref.Emax, ref.Emax-g
		}
		return DFin(genSign(t), cx, ex), DFin(genSign(t), y, clampExp(ey))
	case 10, 11:
		// magnitudes within a factor of ten of each other although the exponents are far apart: the dividend has
		// a long coefficient at a low exponent, the divisor a short one (often 1) at a high exponent, and the
		// exponent gap is minus the difference of their digit counts, give or take one. The integer quotient is
		// 0..99 and every "the dividend is too small to matter" shortcut has its boundary here.
		var cx *big.Int
		if rapid.Bool().Draw(t, "full") {
			cx = fullCoef(t)
		} else {
			cx = genCoef(t)
			if cx.Sign() == 0 {
				cx = bi(7)
			}
		}
		var cy *big.Int
		switch ir(t, 0, 3, "cyKind") {
		case 0:
			cy = bi(1)
		case 1:
			cy = bi(int64(ir(t, 1, 99, "cySmall")))
		default:
			cy = genDigits(t, ir(t, 1, 20, "cyLen"))
		}
		g := -(ref.DecLen(cx) - ref.DecLen(cy)) + ir(t, -1, 1, "slack")
		ey := genExp(t)
		ex := ey + g
		if ex < ref.Emin {
			ex, ey = ref.Emin, ref.Emin-g
		}
		return DFin(genSign(t), cx, clampExp(ex)), DFin(genSign(t), cy, clampExp(ey))
	case 0:
		return genFinite(t), genFiniteNZ(t)
	case 1, 2:
		// small gaps: every scaling arm
		y := genFiniteNZ(t)
		ny := y.Num()
		g := ir(t, -40, 60, "gap")
		return DFin(genSign(t), genCoef(t), clampExp(ny.Exp+g)), y
	case 3:
		// huge quotients
		y := genFiniteNZ(t)
		ny := y.Num()
		g := ir(t, 60, 12287, "gap")
		ex := ny.Exp + g
		if ex > ref.Emax {
			ex = ref.Emax
			y = DFin(ny.Neg, ny.Coef, clampExp(ex-g))
		}
		c := genCoef(t)
		if c.Sign() == 0 {
			c = bi(3)
		}
		return DFin(genSign(t), c, ex), y
	case 4, 5:
		// x = k*y + delta units (exact division and its neighbours)
		dy := ir(t, 1, 18, "dy")
		cy := genDigits(t, dy)
		k := genDigits(t, ir(t, 1, 34-dy+1, "dk"))
		cx := new(big.Int).Mul(k, cy)
		cx.Add(cx, bi(int64(ir(t, -2, 2, "delta"))))
		cx = capCoef(cx)
		ey := genExp(t)
		g := ir(t, 0, 50, "gap")
		if ir(t, 0, 5, "bigGap") == 0 {
			g = ir(t, 50, 6000, "gapBig")
		}
		ex := ey + g
		if ex > ref.Emax {
			ex, ey = ref.Emax, ref.Emax-g
		}
		return DFin(genSign(t), cx, ex), DFin(genSign(t), cy, clampExp(ey))
	case 6:
		// same value in different cohorts, +/- a unit: q in {0, 1}
		y := genFiniteNZ(t)
		xm := genCohortMember(t, y).Num()
		c := new(big.Int).Add(xm.Coef, bi(int64(ir(t, -1, 1, "du"))))
		if c.Sign() < 0 || c.Cmp(ref.Cmax) > 0 {
			c = xm.Coef
		}
		return DFin(genSign(t), c, xm.Exp), y
	case 7:
		// special classes the statement lists
		var x, y D
		switch ir(t, 0, 4, "sp") {
		case 0:
			x, y = genFinite(t), D{0x7800_0000_0000_0000 | uint64(ir(t, 0, 1, "s"))<<63, 0}
		case 1:
			x, y = genFinite(t), genZero(t)
		case 2:
			x, y = genZero(t), genZero(t)
		case 3:
			x, y = D{0x7800_0000_0000_0000 | uint64(ir(t, 0, 1, "s"))<<63, 0}, genFinite(t)
		default:
			x = D{0x7800_0000_0000_0000 | uint64(ir(t, 0, 1, "s"))<<63, u64(t, "garb")}
			y = D{0x7800_0000_0000_0000 | uint64(ir(t, 0, 1, "s2"))<<63, 0}
		}
		return x, y
	case 8:
		// 64-bit fast path with continuation
		cx := new(big.Int).SetUint64(u64(t, "cx"))
		cy := new(big.Int).SetUint64(u64(t, "cy") >> uint(ir(t, 0, 60, "sh")))
		if cy.Sign() == 0 {
			cy = bi(1)
		}
		ey := genExp(t)
		return DFin(genSign(t), cx, clampExp(ey+ir(t, 0, 45, "gap"))), DFin(genSign(t), cy, ey)
	}
	// zero dividend
	return genZero(t), genFiniteNZ(t)
}

func TestC03_QuoRem(t *testing.T) {
	runRapid(t, 60000, 2400000, func(t *rapid.T) {
		x, y := genQuoRemPair(t)
		c03.Run(t, c03Args{X: x, Y: y})
	})
}
