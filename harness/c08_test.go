package harness

import (
	"math"
	"math/big"
	"testing"

	d128 "github.com/woodsbury/decimal128"
	"pgregory.net/rapid"

	"verif/harness/ref"
)

// C08 — Round, Ceil, Floor and Trunc quantise exactly as specified.

type c08Args struct {
	V  D
	DP int
}

// quantise returns the exact result of rounding v (finite, non-zero) to a
// multiple of 10^-dp under mode m as (n, e): value n*10^e, or inf=true when that
// multiple exceeds the largest finite Decimal. flushTenth applies the
// "below one tenth of the quantum gives zero" rule of Decimal.Round.
func quantise(v ref.Num, dp int, dir func(neg bool, half int, odd bool) bool, flushTenth bool) (res ref.Num, unchanged bool) {
	qe := -dp // quantum exponent
	if v.Exp >= qe {
		return v, true
	}
	// |v| = coef * 10^exp, exp < qe. n = floor(coef / 10^(qe-exp))
	shift := qe - v.Exp
	nd := ref.DecLen(v.Coef)
	zero := ref.Num{Class: ref.Finite, Neg: v.Neg, Coef: new(big.Int)}
	var n *big.Int
	var half int
	if shift > nd+1 {
		// |v| < Q/10
		if flushTenth {
			return zero, false
		}
		n, half = new(big.Int), -1
	} else {
		x := ref.XOf(v)
		var exact bool
		n, half, exact = ref.IntDiv(x, qe)
		if exact {
			return v, true // already a multiple of the quantum (trailing zeros)
		}
		if flushTenth && shift > nd { // |v| < Q/10  <=> coef < 10^(shift-1)
			return zero, false
		}
	}
	if dir(v.Neg, half, n.Bit(0) == 1) {
		n = new(big.Int).Add(n, ref.One)
	}
	if n.Sign() == 0 {
		return zero, false
	}
	// n * 10^qe must be a member of the format
	r := ref.RoundX(ref.X{Neg: v.Neg, Num: n, Den: ref.One, Exp: qe}, d128.ToZero, false)
	if r.Class == ref.Finite && !ref.EqualsX(r, ref.X{Neg: v.Neg, Num: n, Den: ref.One, Exp: qe}) {
		// multiple of the quantum not representable exactly (only possible beyond the top of the range)
		return ref.Num{Class: ref.Inf, Neg: v.Neg}, false
	}
	return r, false
}

func modeDir(m d128.RoundingMode) func(bool, int, bool) bool {
	return func(neg bool, half int, odd bool) bool { return ref.RoundsUp(m, neg, half, odd) }
}

var c08 = Register("C08", "C08.quantise", func(a c08Args) *Violation {
	st := S("C08", "quantise")
	st.Eval(1)
	d := a.V.Dec()
	n := a.V.Num()
	dp := a.DP
	if n.Class != ref.Finite {
		for _, m := range loopModes() {
			if got := d.Round(dp, m); got != d {
				return violf("Round(%s, %d, %v) changed a special value to %s", n, dp, m, DOf(got))
			}
		}
		if d.Ceil(dp) != d || d.Floor(dp) != d {
			return violf("Ceil/Floor(%s, %d) changed a special value", n, dp)
		}
		st.Class("special")
		return nil
	}
	// keep the reference arithmetic bounded: beyond these the result is decided analytically
	rdp := dp
	if rdp > 7000 {
		rdp = 7000 // quantum below every Decimal's exponent: unchanged
	}
	if rdp < -7000 {
		rdp = -7000 // quantum above ten times the largest Decimal
	}
	if knownActive("F11-dp-near-minint") && dp < math.MinInt+6177 {
		st.Exclude("F11-dp-near-minint")
		return nil
	}
	inF10 := -dp > ref.Emax && !n.IsZero() && n.Exp < -dp
	if knownActive("F10-quantum-above-emax") && inF10 {
		st.Exclude("F10-quantum-above-emax")
		return nil
	}
	check := func(name string, got d128.Decimal, want ref.Num, unchanged bool) *Violation {
		g := ref.Decode(got)
		if !ref.SameVal(g, want) {
			return violf("%s(%s, dp=%d) = %s, want %s", name, n, dp, g, want)
		}
		return nil
	}
	dropped := false
	klass := ""
	for _, m := range loopModes() {
		got := d.Round(dp, m)
		var want ref.Num
		unch := true
		if n.IsZero() {
			want = n
		} else {
			want, unch = quantise(n, rdp, modeDir(m), true)
		}
		if v := check("Round/"+m.String(), got, want, unch); v != nil {
			return v
		}
		if !unch {
			dropped = true
		}
		// idempotent
		if again := got.Round(dp, m); !ref.SameVal(ref.Decode(again), ref.Decode(got)) {
			return violf("Round(%s, dp=%d, %v) not idempotent: %s then %s", n, dp, m, ref.Decode(got), ref.Decode(again))
		}
		// never farther than one quantum
		if g := ref.Decode(got); g.Class == ref.Finite && !n.IsZero() && rdp == dp {
			if v := withinQuantum(n, g, dp); v != nil {
				return v
			}
		}
	}
	ceilDir := func(neg bool, half int, odd bool) bool { return !neg }
	floorDir := func(neg bool, half int, odd bool) bool { return neg }
	var wc, wf ref.Num
	if n.IsZero() {
		wc, wf = n, n
	} else {
		wc, _ = quantise(n, rdp, ceilDir, false)
		wf, _ = quantise(n, rdp, floorDir, false)
	}
	if v := check("Ceil", d.Ceil(dp), wc, false); v != nil {
		return v
	}
	if v := check("Floor", d.Floor(dp), wf, false); v != nil {
		return v
	}
	if c := d.Ceil(dp); !ref.SameVal(ref.Decode(c.Ceil(dp)), ref.Decode(c)) {
		return violf("Ceil(%s, dp=%d) not idempotent", n, dp)
	}
	if f := d.Floor(dp); !ref.SameVal(ref.Decode(f.Floor(dp)), ref.Decode(f)) {
		return violf("Floor(%s, dp=%d) not idempotent", n, dp)
	}
	// package functions
	if d128.Round(d) != d.Round(0, d128.ToNearestAway) || d128.Trunc(d) != d.Round(0, d128.ToZero) || d128.Ceil(d) != d.Ceil(0) || d128.Floor(d) != d.Floor(0) {
		return violf("package Round/Trunc/Ceil/Floor(%s) differ from the method forms at dp=0", n)
	}
	if dp != 0 {
		// the package functions are checked against the oracle at dp=0 as well
		if n.IsZero() {
			return nil
		}
		w0, _ := quantise(n, 0, modeDir(d128.ToNearestAway), true)
		if v := check("Round()", d128.Round(d), w0, false); v != nil {
			return v
		}
		w0, _ = quantise(n, 0, modeDir(d128.ToZero), true)
		if v := check("Trunc()", d128.Trunc(d), w0, false); v != nil {
			return v
		}
		w0, _ = quantise(n, 0, ceilDir, false)
		if v := check("Ceil()", d128.Ceil(d), w0, false); v != nil {
			return v
		}
		w0, _ = quantise(n, 0, floorDir, false)
		if v := check("Floor()", d128.Floor(d), w0, false); v != nil {
			return v
		}
	}
	if n.IsZero() {
		st.Class("zero")
		return nil
	}
	if dropped {
		shift := -rdp - n.Exp
		nd := ref.DecLen(n.Coef)
		switch {
		case shift > nd:
			klass = "below-tenth-quantum(flush)"
		case shift == nd:
			klass = "all-digits-dropped"
		default:
			klass = "some-digits-dropped"
			x := ref.XOf(n)
			if _, half, _ := ref.IntDiv(x, -rdp); half == 0 {
				klass = "half"
			}
		}
		if -dp > ref.Emax {
			st.Class("quantum-above-emax")
		}
		if dp < -7000 || dp > 7000 {
			st.Class("dp-extreme")
		}
		st.Class(klass)
		st.NT(hashWords(a.V.Hi, a.V.Lo, uint64(int64(dp))), func() any {
			return map[string]any{"d": n.String(), "dp": dp, "class": klass}
		})
	} else {
		st.Class("already-multiple")
	}
	return nil
})

// withinQuantum checks |g - n| <= 10^-dp.
func withinQuantum(n, g ref.Num, dp int) *Violation {
	diff, zero := ref.AddX(n, ref.NegNum(g))
	if zero {
		return nil
	}
	q := ref.X{Num: ref.One, Den: ref.One, Exp: -dp}
	if ref.CmpAbsX(diff, q) > 0 {
		return violf("Round(%s, dp=%d) = %s is farther than one quantum from d", n, dp, g)
	}
	return nil
}

func genDP(t *rapid.T, n ref.Num) int {
	switch ir(t, 0, 10, "dpKind") {
	case 10:
		// a dp that is ordinary only after narrowing to 16 or 32 bits
		base := ir(t, -45, 45, "dpBase")
		if n.Class == ref.Finite {
			base = -(n.Exp + ir(t, -2, ref.DecLen(n.Coef)+3, "j"))
		}
		return genWrapInt(t, base)
	case 0, 1, 2, 3, 4:
		// near d's own digits
		nd := 1
		if n.Class == ref.Finite {
			nd = ref.DecLen(n.Coef)
			return -(n.Exp + ir(t, -2, nd+3, "j"))
		}
		return ir(t, -40, 40, "dp")
	case 5:
		return ir(t, -7000, 7000, "dp")
	case 6:
		return genNear(t, 40, -6111, -6112, -6145, -6146, 6176, 6177, 0)
	case 7:
		return []int{math.MinInt, math.MinInt + 1, math.MinInt + 6176, math.MinInt + 6177, math.MaxInt, math.MaxInt - 1, math.MinInt32, math.MaxInt32, -1 << 15, 1 << 15, 1 << 16}[ir(t, 0, 10, "extreme")]
	case 8:
		return 0
	}
	return ir(t, -45, 45, "dpSmall")
}

func TestC08_Quantise(t *testing.T) {
	runRapid(t, 100000, 5000000, func(t *rapid.T) {
		var v D
		switch ir(t, 0, 9, "vKind") {
		case 0:
			v = genAny(t)
		case 1:
			// values around small integers and halves (dp = 0 functions)
			c := genDigits(t, ir(t, 1, 8, "len"))
			if rapid.Bool().Draw(t, "half") {
				c.Mul(c, ref.Ten)
				c.Add(c, big5)
			}
			v = DFin(genSign(t), c, -ir(t, 0, 8, "scale"))
		case 2:
			// top of the range: carries into overflow
			v = DFin(genSign(t), fullCoef(t), ref.Emax-ir(t, 0, 3, "top"))
		case 3, 4:
			// tie / near-tie at the rounding position: coef = A*10^k + 5*10^(k-1) + tiny, dp = -(exp+k)
			k := ir(t, 1, 34, "k")
			alen := ir(t, 0, 35-k, "alen")
			c := new(big.Int)
			if alen > 0 {
				c = genDigits(t, alen)
				if rapid.Bool().Draw(t, "nines") {
					c = new(big.Int).Sub(ref.Pow10(alen), ref.One) // carry chain
				}
			}
			c.Mul(c, ref.Pow10(k))
			c.Add(c, new(big.Int).Mul(big5, ref.Pow10(k-1)))
			if k > 1 {
				c.Add(c, bi(int64(ir(t, -1, 1, "tiny"))))
			}
			c = capCoef(c)
			e := genExp(t)
			c08.Run(t, c08Args{V: DFin(genSign(t), c, e), DP: -(e + k)})
			return
		default:
			v = genFinite(t)
		}
		c08.Run(t, c08Args{V: v, DP: genDP(t, v.Num())})
	})
}
