package harness

import (
	"encoding/binary"
	"math"
	"strings"
	"testing"

	"verif/harness/ref"
)

// Native (coverage-guided) fuzz targets, run by the thorough tier for a fixed
// wall budget each. Every target decodes its input into the arguments of a
// pure check function and evaluates the same oracle as the rapid tests; a
// failure is written as a replay file by the check itself, so the saved case
// does not depend on Go's fuzz corpus format.

func fuzzEval[A any](t *testing.T, c *Checker[A], a A) {
	if v := c.Eval(a); v != nil {
		c.writeFail(a, v)
		t.Fatalf("%s: %s", c.name, v.Msg)
	}
}

var literalSeeds = []string{
	"0", "-0", "1", "+1.5", ".5", "5.", "1e10", "1E-10", "1_000.000_1e1_0", "NaN", "inf", "-Infinity", "nan",
	"12980742146337069071326240823050239", "12980742146337069071326240823050240", "9999999999999999999999999999999999.5",
	"1e6144", "1e6145", "9.99e6144", "1e-6176", "1e-6177", "5e-6177", "4.9e-6177", "0.5e-6176", "1e-6215", "1e99999999999",
	"1e-99999999999", "0e99999999999", "1298074214633706907132624082305023950000000000000000000000000001",
	"." + strings.Repeat("0", 50) + "1", strings.Repeat("9", 40) + "e-6200", "1__0", "1_", "_1", "1e", "1e+", "0x10", "++1", "1.2.3", "",
	"1._5", "1_.5", "1e_5", "-nan", "+.", "e5", "1 ", "\x001",
}

func FuzzC05Parse(f *testing.F) {
	for _, s := range literalSeeds {
		f.Add(s)
	}
	f.Fuzz(func(t *testing.T, s string) {
		if len(s) > 1<<17 {
			return
		}
		fuzzEval(t, c05, c05Args{S: s})
	})
}

func FuzzC13UnmarshalJSON(f *testing.F) {
	for _, s := range literalSeeds {
		f.Add(s)
	}
	for _, s := range []string{"null", "true", `"1"`, "[1]", "{}", `{"a":1}`, "1.0e+2", "-0.0", "0.1e-6176", "1E6144", "12345678901234567890_1", "1e1_0", " 1", "1\n"} {
		f.Add(s)
	}
	f.Fuzz(func(t *testing.T, s string) {
		if len(s) > 1<<16 {
			return
		}
		fuzzEval(t, c13unmarshal, c13UnmarshalArgs{Data: s})
	})
}

func FuzzC14Compose(f *testing.F) {
	f.Add(byte(0), false, []byte{1}, int32(0))
	f.Add(byte(0), true, []byte{0, 0, 0x27, 0xff, 0xff, 0xff, 0xff, 0xff, 0xff, 0xff, 0xff, 0xff, 0xff, 0xff, 0xff, 0xff, 0xff, 0xff}, int32(6111))
	f.Add(byte(0), false, []byte{0x0a}, int32(-6177))
	f.Add(byte(0), false, []byte{103}, int32(-6178))
	f.Add(byte(0), false, []byte{1}, int32(math.MaxInt32))
	f.Add(byte(0), false, []byte{1}, int32(math.MinInt32))
	f.Add(byte(1), true, []byte{}, int32(5))
	f.Add(byte(2), false, []byte{9}, int32(-5))
	f.Add(byte(3), false, []byte{9}, int32(0))
	f.Add(byte(0), false, append([]byte{1}, make([]byte, 40)...), int32(-90))
	f.Fuzz(func(t *testing.T, form byte, neg bool, coef []byte, exp int32) {
		if len(coef) > 600 {
			return
		}
		fuzzEval(t, c14parts, c14PartsArgs{Form: form, Neg: neg, Coef: coef, Exp: exp})
	})
}

func FuzzC12Binary(f *testing.F) {
	f.Add(make([]byte, 16))
	f.Add([]byte{0x30, 0x40, 0, 0, 0, 0, 0, 0, 0, 0, 0, 0, 0, 0, 0, 1})
	f.Add([]byte{0x78, 0, 0, 0, 0, 0, 0, 0, 0, 0, 0, 0, 0, 0, 0, 0})
	f.Add([]byte{0x7c, 0, 0, 0, 0, 0, 0, 0, 0, 0, 0, 0, 0, 0, 0, 5})
	f.Add([]byte{0x6c, 0x10, 0, 0, 0, 0, 0, 0, 0, 0, 0, 0, 0, 0, 0, 0})
	f.Add([]byte{1, 2, 3})
	f.Fuzz(func(t *testing.T, b []byte) {
		if len(b) > 64 {
			return
		}
		fuzzEval(t, c12len, c12LenArgs{Data: b})
		if len(b) == 16 {
			v := D{binary.BigEndian.Uint64(b[:8]), binary.BigEndian.Uint64(b[8:])}
			fuzzEval(t, c12, c12Args{V: v})
			fuzzEval(t, c06, c06Args{V: v})
			fuzzEval(t, c15pred, c15PredArgs{V: v})
		}
	})
}

func FuzzC07Format(f *testing.F) {
	f.Add(uint64(0x3040000000000000), uint64(15), "5.2f", "pre")
	f.Add(uint64(0x303e000000000000), uint64(5), ".0f", "")
	f.Add(uint64(0x3040000000000000), uint64(1), "-04g", "")
	f.Add(uint64(0xb040000000000000), uint64(99996), "+#012.3G", "x")
	f.Add(uint64(0x2ffe000000000000), uint64(123456789), " 030.20e", "")
	f.Fuzz(func(t *testing.T, hi, lo uint64, spec, pre string) {
		if len(spec) > 12 || len(pre) > 64 {
			return
		}
		sp, ok := parseSpec(spec)
		if !ok || sp.Wid > 200 || sp.Prec > 200 {
			return
		}
		fuzzEval(t, c07, c07Args{V: D{hi, lo}, Spec: spec, Pre: pre, Cap: int(lo % 7)})
	})
}

// FuzzC20Ops decodes bytes into (entry point, operands, scalars, default mode).
func FuzzC20Ops(f *testing.F) {
	f.Add([]byte{0, 1, 2, 3, 4, 5, 6, 7, 8, 9, 10, 11, 12, 13, 14, 15, 16, 17, 18, 19, 20, 21, 22, 23, 24, 25, 26, 27, 28, 29, 30, 31, 32, 33, 34, 35, 36, 37, 38, 39, 40, 41, 42, 43, 44, 45, 46, 47, 48, 49, 50, 51, 52, 53}, "1e5")
	f.Add(make([]byte, 54), "%v")
	f.Fuzz(func(t *testing.T, b []byte, s string) {
		if len(b) < 54 || len(s) > 4096 {
			return
		}
		u := func(i int) uint64 { return binary.LittleEndian.Uint64(b[i:]) }
		c := c20Call{
			Op:  c20Entries[int(b[0])%len(c20Entries)].name,
			X:   D{u(1), u(9)},
			Y:   D{u(17), u(25)},
			I:   int(int64(u(33))),
			J:   int64(u(41)),
			M:   b[49],
			B:   b[50],
			Neg: b[51]&1 == 1,
			S:   s,
		}
		switch c.Op {
		case "Format", "Append":
			c.I = int(int64(u(33)) % 100001) // precisions are claimed up to 100000
		case "Sprintf":
			if strings.Count(s, "%") > 4 {
				return
			}
		}
		if b[52]&3 == 0 {
			c.T = s
		}
		fuzzEval(t, c20, c20Args{Call: c, Default: b[53]})
	})
}

// fuzzPair decodes two operands; with flags&1 the second operand keeps its sign and coefficient but takes the
// first operand's exponent plus gap, so that coverage feedback can steer the alignment distance directly instead
// of having to match two 14-bit exponent fields by chance.
func fuzzPair(hi1, lo1, hi2, lo2 uint64, gap int16, flags byte) (D, D) {
	x, y := D{hi1, lo1}, D{hi2, lo2}
	if flags&1 == 1 {
		nx, ny := x.Num(), y.Num()
		if nx.Class == ref.Finite && ny.Class == ref.Finite { // both finite
			g := int(gap)
			if flags&4 == 0 {
				g = int(int8(gap)) // small gaps most of the time
			}
			y = DFin(ny.Neg, ny.Coef, clampExp(nx.Exp+g))
		}
	}
	return x, y
}

var pairSeeds = [][4]uint64{
	{0x3040000000000000, 1, 0x3040000000000000, 1},
	{0x3040000000000000, 5, 0x303e000000000000, 5},
	{0x30403ed09bead87c, 0x0378d8e63fffffff, 0x3040000000000000, 1},                  // 10^34 - 1
	{0x5ffe27ffffffffff, 0xffffffffffffffff, 0x5ffe27ffffffffff, 0xffffffffffffffff}, // Cmax at Emax
	{0x0000000000000000, 1, 0x0000000000000000, 1},                                   // smallest subnormal
	{0x3040000000000001, 0, 0xb040000000000000, 1},                                   // 2^64 and -1
	{0x6c10000000000000, 0, 0x3040000000000000, 7},                                   // steering form
}

func addPairSeeds(f *testing.F) {
	for _, s := range pairSeeds {
		for _, g := range []int16{0, 1, -1, 17, 34, 35, 36, -40} {
			f.Add(s[0], s[1], s[2], s[3], g, byte(1))
			f.Add(s[0], s[1], s[2], s[3], g, byte(3))
		}
		f.Add(s[0], s[1], s[2], s[3], int16(0), byte(0))
	}
}

func FuzzC01AddSub(f *testing.F) {
	addPairSeeds(f)
	f.Fuzz(func(t *testing.T, hi1, lo1, hi2, lo2 uint64, gap int16, flags byte) {
		x, y := fuzzPair(hi1, lo1, hi2, lo2, gap, flags)
		fuzzEval(t, c01, c01Args{X: x, Y: y, Sub: flags&2 != 0})
	})
}

func FuzzC02MulQuo(f *testing.F) {
	addPairSeeds(f)
	f.Fuzz(func(t *testing.T, hi1, lo1, hi2, lo2 uint64, gap int16, flags byte) {
		x, y := fuzzPair(hi1, lo1, hi2, lo2, gap, flags)
		fuzzEval(t, c02, c02Args{X: x, Y: y, Quo: flags&2 != 0})
	})
}

func FuzzC03QuoRem(f *testing.F) {
	addPairSeeds(f)
	f.Fuzz(func(t *testing.T, hi1, lo1, hi2, lo2 uint64, gap int16, flags byte) {
		x, y := fuzzPair(hi1, lo1, hi2, lo2, gap, flags)
		if flags&2 != 0 {
			x, y = y, x
		}
		fuzzEval(t, c03, c03Args{X: x, Y: y})
	})
}

func FuzzC04Order(f *testing.F) {
	for _, s := range pairSeeds {
		f.Add(s[0], s[1], s[2], s[3], s[0]^1<<63, s[1], int16(0), byte(1))
		f.Add(s[0], s[1], s[2], s[3], s[2], s[3]+1, int16(34), byte(1))
	}
	f.Fuzz(func(t *testing.T, hi1, lo1, hi2, lo2, hi3, lo3 uint64, gap int16, flags byte) {
		x, y := fuzzPair(hi1, lo1, hi2, lo2, gap, flags)
		_, z := fuzzPair(hi1, lo1, hi3, lo3, -gap, flags>>1)
		fuzzEval(t, c04, c04Args{X: x, Y: y, Z: z})
	})
}

func FuzzC08Quantise(f *testing.F) {
	for _, s := range pairSeeds {
		for _, dp := range []int32{0, 1, -1, 5, 34, -34, 6176, -6111, -6112, -6145, math.MaxInt32, math.MinInt32} {
			f.Add(s[0], s[1], dp, false)
			f.Add(s[0], s[1], dp, true)
		}
	}
	f.Fuzz(func(t *testing.T, hi, lo uint64, dp int32, rel bool) {
		v := D{hi, lo}
		d := int(dp)
		if rel {
			// dp relative to the operand's own exponent: the cut falls inside or next to the coefficient
			if n := v.Num(); n.Class == ref.Finite {
				d = -n.Exp + int(int8(dp))
			}
		}
		fuzzEval(t, c08, c08Args{V: v, DP: d})
	})
}
