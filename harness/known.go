package harness

import (
	"bufio"
	"os"
	"strings"
)

// Known findings: a region key is active only while a "finding:" line naming it
// is present in KNOWN_FINDINGS.txt (path in VERIF_KNOWN). The file is never
// written at run time. "fixed:" lines suppress nothing.
var knownKeys = func() map[string]bool {
	m := map[string]bool{}
	p := os.Getenv("VERIF_KNOWN")
	if p == "" {
		return m
	}
	f, err := os.Open(p)
	if err != nil {
		return m
	}
	defer f.Close()
	sc := bufio.NewScanner(f)
	for sc.Scan() {
		line := strings.TrimSpace(sc.Text())
		if !strings.HasPrefix(line, "finding:") {
			continue
		}
		for _, f := range strings.Fields(line) {
			if strings.HasPrefix(f, "key=") {
				m[strings.TrimPrefix(f, "key=")] = true
			}
		}
	}
	return m
}()

// knownActive reports whether the known finding with this region key is listed.
func knownActive(key string) bool { return knownKeys[key] }
