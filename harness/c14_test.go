package harness

import (
	"bytes"
	"math"
	"math/big"
	"testing"

	d128 "github.com/woodsbury/decimal128"
	"pgregory.net/rapid"

	"verif/harness/ref"
)

// C14 — database/sql Compose/Decompose are exact inverses; Compose is exact-or-error.

type c14RTArgs struct {
	V      D
	BufLen int // -1: nil buffer
	BufCap int
}

var c14rt = Register("C14", "C14.roundtrip", func(a c14RTArgs) *Violation {
	st := S("C14", "roundtrip")
	st.Eval(1)
	d := a.V.Dec()
	n := a.V.Num()
	var buf []byte
	if a.BufLen >= 0 {
		buf = make([]byte, a.BufLen, a.BufCap)
		full := buf[:cap(buf)]
		for i := range full {
			full[i] = 0xa5
		}
	}
	form, neg, coef, exp := d.Decompose(buf)
	if buf == nil {
		if v := ownedBytes("Decompose("+a.V.String()+", nil)", coef, func() []byte { _, _, c, _ := d.Decompose(nil); return c }); v != nil {
			return v
		}
	}
	switch n.Class {
	case ref.NaN:
		if form != 2 {
			return violf("Decompose(%s): form %d, want 2", a.V, form)
		}
	case ref.Inf:
		if form != 1 || neg != n.Neg {
			return violf("Decompose(%s): form %d neg %v", a.V, form, neg)
		}
	default:
		if form != 0 || neg != n.Neg {
			return violf("Decompose(%s): form %d neg %v", a.V, form, neg)
		}
		c := new(big.Int).SetBytes(coef)
		if c.Cmp(n.Coef) != 0 || (c.Sign() != 0 && int(exp) != n.Exp) {
			return violf("Decompose(%s) = coefficient %s exponent %d", a.V, c, exp)
		}
	}
	if buf != nil {
		full := buf[:cap(buf)]
		lim := 0
		if cap(buf) >= 16 {
			lim = 16
		}
		for i := lim; i < len(full); i++ {
			if full[i] != 0xa5 {
				return violf("Decompose(%s, buf len %d cap %d) wrote buf[%d] beyond the 16 bytes it may use", a.V, a.BufLen, a.BufCap, i)
			}
		}
	}
	back := prior(hashWords(a.V.Hi, a.V.Lo, 3))
	keep := append([]byte(nil), coef...)
	if err := back.Compose(form, neg, coef, exp); err != nil {
		return violf("Compose(Decompose(%s)): %v", a.V, err)
	}
	if !bytes.Equal(keep, coef) {
		return violf("Compose modified the coefficient slice")
	}
	if nb := ref.Decode(back); !ref.SameVal(nb, n) {
		return violf("Compose(Decompose(%s)) = %s", a.V, nb)
	}
	if n.Class == ref.Finite && n.Coef.BitLen() > 64 {
		st.NT(hashWords(a.V.Hi, a.V.Lo, uint64(a.BufLen+1), uint64(a.BufCap)), func() any {
			return map[string]any{"d": n.String(), "buf_len": a.BufLen, "buf_cap": a.BufCap}
		})
	}
	if buf != nil && cap(buf) >= 16 {
		st.Class("reused-buffer")
	} else if buf != nil {
		st.Class("short-buffer")
	} else {
		st.Class("nil-buffer")
	}
	return nil
})

type c14PartsArgs struct {
	Form byte
	Neg  bool
	Coef []byte
	Exp  int32
}

var c14parts = Register("C14", "C14.parts", func(a c14PartsArgs) *Violation {
	st := S("C14", "parts")
	st.Eval(1)
	keep := append([]byte(nil), a.Coef...)
	d := prior(hashBytes(a.Coef) + uint64(uint32(a.Exp)) + uint64(a.Form))
	err := d.Compose(a.Form, a.Neg, a.Coef, a.Exp)
	if !bytes.Equal(keep, a.Coef) {
		return violf("Compose modified the coefficient slice")
	}
	g := ref.Decode(d)
	desc := func() string {
		return abbr(new(big.Int).SetBytes(a.Coef).String()) + "e" + itoa64(int64(a.Exp))
	}
	switch {
	case a.Form > 2:
		st.Class("unknown-form")
		if err == nil {
			return violf("Compose(form %d) returned no error", a.Form)
		}
		return nil
	case a.Form == 1:
		st.Class("form-inf")
		if err != nil || g.Class != ref.Inf || g.Neg != a.Neg {
			return violf("Compose(form 1, neg %v) = %s, err %v", a.Neg, g, err)
		}
		return nil
	case a.Form == 2:
		st.Class("form-nan")
		if err != nil || g.Class != ref.NaN {
			return violf("Compose(form 2) = %s, err %v", g, err)
		}
		return nil
	}
	c := new(big.Int).SetBytes(a.Coef)
	if c.Sign() == 0 {
		st.Class("zero-coefficient")
		if err != nil || !g.IsZero() || g.Neg != a.Neg {
			return violf("Compose(0e%d, neg %v) = %s, err %v", a.Exp, a.Neg, g, err)
		}
		return nil
	}
	nd := ref.DecLen(c)
	var want *ref.Num
	lead := int64(a.Exp) + int64(nd) // value in [10^(lead-1), 10^lead)
	if lead-1 >= 6146 || lead <= -6176 {
		want = nil // outside the format by magnitude alone
		st.Class("far-out-of-range")
	} else {
		x := ref.X{Neg: a.Neg, Num: c, Den: ref.One, Exp: int(a.Exp)}
		lo, hi := ref.RoundX(x, d128.ToZero, false), ref.RoundX(x, d128.AwayFromZero, false)
		if lo.Class == ref.Finite && hi.Class == ref.Finite && ref.SameVal(lo, hi) {
			want = &lo
		}
	}
	if want == nil {
		st.Class("unrepresentable")
		if err == nil {
			return violf("Compose(%s) returned %s without error although the value is not representable", desc(), g)
		}
	} else {
		if err != nil {
			return violf("Compose(%s) failed (%v) although the value is representable as %s", desc(), err, want)
		}
		if !ref.SameVal(g, *want) {
			return violf("Compose(%s) = %s, want %s", desc(), g, want)
		}
		st.Class("representable")
		if int(a.Exp) < ref.Emin || int(a.Exp) > ref.Emax {
			st.Class("representable/exponent-compensated")
		}
	}
	if len(a.Coef) > 16 || int(a.Exp) < ref.Emin || int(a.Exp) > ref.Emax {
		switch {
		case len(a.Coef) > 32:
			st.Class("coef>32bytes")
		case len(a.Coef) > 16:
			st.Class("coef17-32bytes")
		}
		st.NT(hashBytes(append(append([]byte{a.Form, byte(b2i(a.Neg))}, a.Coef...), byte(a.Exp), byte(a.Exp>>8), byte(a.Exp>>16), byte(a.Exp>>24))), func() any {
			return map[string]any{"coef": abbr(c.String()), "coef_bytes": len(a.Coef), "exp": a.Exp, "representable": want != nil}
		})
	}
	return nil
})

func itoa64(i int64) string { return big.NewInt(i).String() }

func genParts(t *rapid.T) c14PartsArgs {
	a := c14PartsArgs{Neg: genSign(t)}
	switch ir(t, 0, 11, "formKind") {
	case 0:
		a.Form = byte(ir(t, 0, 255, "form"))
	case 1:
		a.Form = byte(ir(t, 1, 3, "form"))
	}
	// coefficient = c * 10^z + small, with leading zero bytes
	var c *big.Int
	switch ir(t, 0, 5, "coefKind") {
	case 0:
		c = genCoef(t)
	case 1:
		c = new(big.Int).Add(ref.Cmax, bi(int64(ir(t, -2, 12, "off"))))
	case 2:
		c = new(big.Int).SetBytes(rapid.SliceOfN(rapid.Byte(), 0, 40).Draw(t, "rawCoef"))
	default:
		c = genCoef(t)
	}
	z := 0
	switch ir(t, 0, 4, "zKind") {
	case 1:
		z = ir(t, 1, 40, "z")
	case 2:
		z = ir(t, 40, 900, "z")
	case 3:
		z = []int{4, 8, 19, 38, 57, 76}[ir(t, 0, 5, "zStep")] + ir(t, -1, 1, "zOff")
	}
	c = new(big.Int).Mul(c, ref.Pow10(z))
	if ir(t, 0, 5, "addSmall") == 0 {
		c.Add(c, bi(int64(ir(t, 1, 9, "small"))))
	}
	a.Coef = c.Bytes()
	switch lz := ir(t, 0, 8, "leadingZeroBytes"); {
	case lz >= 7:
		// zero-padded up to one of the lengths at which Compose changes its path (16/17, 32/33 bytes) and beyond
		want := []int{16, 17, 24, 32, 33, 34, 40, 64, 100}[ir(t, 0, 8, "padTo")]
		if want > len(a.Coef) {
			a.Coef = append(make([]byte, want-len(a.Coef)), a.Coef...)
		}
	case lz == 6:
		a.Coef = append(make([]byte, ir(t, 1, 48, "pad")), a.Coef...)
	case lz > 2:
		a.Coef = append(make([]byte, lz-2), a.Coef...)
	}
	nd := ref.DecLen(c)
	if ir(t, 0, 11, "tinyLong") == 0 {
		// a long coefficient that is almost all trailing zeros (m * 10^k, m below 100, k up to 1200) at an exponent
		// that brings the value to the bottom of the range: representable iff the zeros absorb the exponent
		// excess, however many bytes that takes
		k := ir(t, 40, 1200, "k")
		m := bi(int64(ir(t, 1, 99, "m")))
		a.Coef = new(big.Int).Mul(m, ref.Pow10(k)).Bytes()
		a.Exp = int32(ref.Emin - k + []int{0, 0, 1, 2, -1, -2, 30}[ir(t, 0, 6, "slack")])
		return a
	}
	if ir(t, 0, 11, "topBand") == 0 {
		// exponent above 6111 absorbed by a short coefficient that lands next to the largest one
		lead, e := topBandLead(t, 35)
		a.Coef, a.Exp = lead.Bytes(), int32(e)
		if ir(t, 0, 3, "padded") == 0 {
			a.Coef = append(make([]byte, ir(t, 1, 30, "pad")), a.Coef...)
		}
		return a
	}
	switch ir(t, 0, 7, "expKind") {
	case 0:
		a.Exp = int32(genExp(t))
	case 1:
		// coefficient compensates an exponent below the range
		a.Exp = int32(ref.Emin - ir(t, 0, z+40, "below"))
	case 2:
		// exponent above the range, compensated by a short coefficient
		a.Exp = int32(ref.Emax + ir(t, 0, 40, "above"))
	case 3:
		a.Exp = int32(genNear(t, 40, ref.Emin-35, ref.Emin, ref.Emax, ref.Emax-z, ref.Emax+35-nd, 6145-nd))
	case 4:
		a.Exp = []int32{math.MinInt32, math.MinInt32 + 1, math.MaxInt32, math.MaxInt32 - 1, math.MaxInt32 - 18, math.MaxInt32 - 19, -1 << 15, 1 << 15, 1<<16 - 6176}[ir(t, 0, 8, "extreme")]
	case 5:
		a.Exp = int32(u32(t, "anyExp"))
	default:
		// keep the leading digit inside the range
		a.Exp = int32(ir(t, ref.Emin-5, 6146, "lead") - nd)
	}
	return a
}

func TestC14_RoundTrip(t *testing.T) {
	runRapid(t, 60000, 3000000, func(t *rapid.T) {
		a := c14RTArgs{V: genAny(t), BufLen: -1}
		switch ir(t, 0, 3, "bufKind") {
		case 1:
			a.BufCap = ir(t, 0, 15, "cap")
			a.BufLen = ir(t, 0, a.BufCap, "len")
		case 2:
			a.BufCap = ir(t, 16, 40, "cap")
			a.BufLen = ir(t, 0, a.BufCap, "len")
		case 3:
			a.BufCap, a.BufLen = 16, ir(t, 0, 16, "len")
		}
		c14rt.Run(t, a)
	})
}

func TestC14_Parts(t *testing.T) {
	runRapid(t, 60000, 3000000, func(t *rapid.T) {
		c14parts.Run(t, genParts(t))
	})
}
