package harness

import (
	"bytes"
	"encoding/json"
	"fmt"
	"math/big"

	d128 "github.com/woodsbury/decimal128"
	"pgregory.net/rapid"

	"verif/harness/ref"
)

// D is a Decimal as a 128-bit pattern; its JSON form is "hhhhhhhhhhhhhhhh.llllllllllllllll".
type D struct{ Hi, Lo uint64 }

func (d D) MarshalJSON() ([]byte, error) {
	return json.Marshal(fmt.Sprintf("%016x.%016x", d.Hi, d.Lo))
}

func (d *D) UnmarshalJSON(b []byte) error {
	var s string
	if err := json.Unmarshal(b, &s); err != nil {
		return err
	}
	_, err := fmt.Sscanf(s, "%016x.%016x", &d.Hi, &d.Lo)
	return err
}

func (d D) Dec() d128.Decimal { return ref.FromBits(d.Hi, d.Lo) }
func (d D) Num() ref.Num      { return ref.DecodeBits(d.Hi, d.Lo) }
func (d D) String() string    { return fmt.Sprintf("%016x.%016x(%s)", d.Hi, d.Lo, d.Num()) }

func DOf(x d128.Decimal) D { hi, lo := ref.Bits(x); return D{hi, lo} }

func DFin(neg bool, coef *big.Int, exp int) D {
	hi, lo := ref.EncodeBits(neg, coef, exp)
	return D{hi, lo}
}

func clampExp(e int) int {
	if e < ref.Emin {
		return ref.Emin
	}
	if e > ref.Emax {
		return ref.Emax
	}
	return e
}

func capCoef(c *big.Int) *big.Int {
	if c.Sign() < 0 {
		c = new(big.Int).Neg(c)
	}
	if c.Cmp(ref.Cmax) > 0 {
		// keep the digit pattern's head: drop low digits until it fits
		c = new(big.Int).Set(c)
		for c.Cmp(ref.Cmax) > 0 {
			c.Quo(c, ref.Ten)
		}
	}
	return c
}

var (
	big5 = big.NewInt(5)
)

func bi(i int64) *big.Int { return big.NewInt(i) }

// genDigits draws a digit string of exactly n digits (first digit non-zero) as
// a big.Int, built from runs of {0, 9, 5, random} digits so that carries,
// borrows, ties and trailing zeros occur often.
func genDigits(t *rapid.T, n int) *big.Int {
	c := new(big.Int)
	left := n
	first := true
	for left > 0 {
		kind := ir(t, 0, 7, "runKind")
		run := 1
		if kind < 4 {
			run = ir(t, 1, left, "runLen")
		} else {
			run = ir(t, 1, min(left, 18), "runLen")
		}
		switch kind {
		case 0, 1, 2:
			dg := int64([]int{0, 9, 5}[kind])
			for i := 0; i < run; i++ {
				d := dg
				if first && d == 0 {
					d = 1
				}
				first = false
				c.Mul(c, ref.Ten)
				c.Add(c, bi(d))
			}
		case 3:
			dg := int64(ir(t, 0, 9, "runDigit"))
			if first && dg == 0 {
				dg = 1
			}
			for i := 0; i < run; i++ {
				c.Mul(c, ref.Ten)
				c.Add(c, bi(dg))
			}
		default:
			v := u64(t, "runRand")
			p := ref.Pow10(run)
			r := new(big.Int).SetUint64(v)
			r.Mod(r, p)
			if first && new(big.Int).Mul(r, ref.Ten).Cmp(p) < 0 {
				r.Add(r, ref.Pow10(run-1))
			}
			c.Mul(c, p)
			c.Add(c, r)
		}
		first = false
		left -= run
	}
	if n >= 35 && c.Cmp(ref.Cmax) > 0 {
		// a 35-digit string above Cmax: clear the leading digit's excess so that the digit pattern survives
		c.Sub(c, new(big.Int).Mul(new(big.Int).Quo(c, ref.Pow10(34)), ref.Pow10(34)))
		c.Add(c, ref.Pow10(34))
		if c.Cmp(ref.Cmax) > 0 {
			c.Sub(c, new(big.Int).Mul(bi(2), ref.Pow10(33))) // 12.. -> 10.. keeps it below 1.298e34
			if c.Cmp(ref.Cmax) > 0 {
				c = capCoef(c)
			}
		}
	}
	return c
}

// genCoef draws a coefficient in [0, Cmax] with the shapes listed in DESIGN §4.
// The result is always a fresh big.Int (never a shared constant).
func genCoef(t *rapid.T) *big.Int { return new(big.Int).Set(genCoefShared(t)) }

func genCoefShared(t *rapid.T) *big.Int {
	switch ir(t, 0, 17, "coefKind") {
	case 9:
		return genWordStructured(t)
	case 10, 17:
		return genPow2Lead(t)
	case 0:
		return new(big.Int).Sub(ref.Cmax, bi(int64(ir(t, 0, 3, "cmaxOff"))))
	case 1:
		return ref.Pow10(ir(t, 0, 34, "p10"))
	case 2:
		return new(big.Int).Sub(ref.Pow10(ir(t, 1, 34, "p10")), ref.One)
	case 3:
		return new(big.Int).Mul(big5, ref.Pow10(ir(t, 0, 33, "p10")))
	case 4:
		c := new(big.Int).Add(ref.Pow10(ir(t, 1, 34, "p10")), bi(int64(ir(t, -2, 2, "off"))))
		return capCoef(c)
	case 5:
		sh := []uint{32, 63, 64, 65, 112, 113}[ir(t, 0, 5, "pow2")]
		c := new(big.Int).Lsh(ref.One, sh)
		c.Add(c, bi(int64(ir(t, -2, 2, "off"))))
		return capCoef(c)
	case 6:
		return bi(int64(ir(t, 0, 1000, "small")))
	case 7:
		// uniform 113/114-bit patterns (form boundary)
		hi := u64(t, "hi")
		lo := u64(t, "lo")
		c := new(big.Int).SetUint64(hi >> 14)
		c.Lsh(c, 64)
		c.Or(c, new(big.Int).SetUint64(lo))
		return capCoef(c)
	case 8:
		// k * 10^z: trailing zeros
		z := ir(t, 1, 33, "tz")
		n := ir(t, 1, 35-z, "len")
		return capCoef(new(big.Int).Mul(genDigits(t, n), ref.Pow10(z)))
	}
	n := ir(t, 1, 35, "len")
	return capCoef(genDigits(t, n))
}

// genWordStructured draws a two-word coefficient hi*2^64 + lo whose words are individually remarkable: a low word
// that is zero, tiny, or just below 2^64 under a non-zero high word (code that looks at one word only — a dropped
// `hi != 0` test, a carry that is not propagated — sees a harmless small number), and high words 1, 2, 3, a few
// bits, 2^32, 2^48 or arbitrary.
func genWordStructured(t *rapid.T) *big.Int {
	var hi, lo uint64
	switch ir(t, 0, 5, "hiKind") {
	case 0:
		hi = 1
	case 1:
		hi = uint64(ir(t, 2, 9, "hiSmall"))
	case 2:
		hi = 1 << uint(ir(t, 1, 48, "hiBit"))
	case 3:
		hi = 1<<32 + uint64(ir(t, -1, 1, "hiOff"))
	default:
		hi = u64(t, "hi") >> 15
	}
	switch ir(t, 0, 6, "loKind") {
	case 0:
		lo = 0
	case 1:
		lo = uint64(ir(t, 0, 9, "loTiny"))
	case 2:
		lo = uint64(ir(t, 0, 7000, "loSmall"))
	case 3:
		lo = ^uint64(0) - uint64(ir(t, 0, 9, "loTop"))
	case 4:
		lo = 1 << uint(ir(t, 0, 63, "loBit"))
	default:
		lo = u64(t, "lo")
	}
	c := new(big.Int).SetUint64(hi)
	c.Lsh(c, 64)
	c.Or(c, new(big.Int).SetUint64(lo))
	return capCoef(c)
}

// genPow2Lead draws a coefficient made of the leading digits of a power of two (or its half, double or third),
// give or take a few units: the multi-word accumulators of the package hold decimal significands scaled by
// powers of ten, and their headroom tests ("may I multiply by ten / a hundred once more?") change outcome where
// significand * 10^j crosses 2^64, 2^128, 2^192 or 2^256 — i.e. for decimal mantissas 1.8446744…, 3.4028236…,
// 6.2771017…, 1.1579208… and, where the code doubles or halves first, their halves and doubles. A guard that is
// off by a sliver there (0x1999… for 0x18ff…) fails only for mantissas within ~1e-19 of such a boundary.
func genPow2Lead(t *rapid.T) *big.Int {
	k := []uint{64, 128, 192, 256}[ir(t, 0, 3, "pow2main")]
	if ir(t, 0, 2, "pow2aux") == 0 {
		k = []uint{63, 65, 96, 113, 114, 127, 129, 160, 191, 193, 224, 255, 257, 320, 384}[ir(t, 0, 14, "pow2k")]
	}
	v := new(big.Int).Lsh(ref.One, k)
	switch ir(t, 0, 5, "pow2mul") {
	case 0:
		v.Mul(v, big.NewInt(3))
	case 1:
		v.Quo(new(big.Int).Mul(v, ref.Pow10(40)), big.NewInt(3)) // a third, digits kept by scaling first
	}
	// any length matters: the accumulators are filled by multiplying by 10^19, 10^4 and 10 in turn, so a
	// coefficient of n digits reaches the boundary after 35-n .. 77-n further digits
	n := ir(t, 15, 35, "len")
	switch ir(t, 0, 3, "pow2len") {
	case 0:
		n = 34
	case 1:
		n = 35
	}
	d := ref.DecLen(v)
	if d > n {
		v.Quo(v, ref.Pow10(d-n))
	} else if d < n {
		v.Mul(v, ref.Pow10(n-d))
	}
	v.Add(v, bi(int64(ir(t, -2, 3, "pow2off"))))
	if v.Cmp(ref.Cmax) > 0 {
		v.Quo(v, ref.Ten)
	}
	if v.Sign() <= 0 {
		v.SetInt64(1)
	}
	return v
}

// genExp draws an exponent in [Emin, Emax].
func genExp(t *rapid.T) int {
	switch ir(t, 0, 8, "expKind") {
	case 8:
		// exactly zero (plain integers: `exp == exponentBias` selects shortcuts of its own), or next to it
		return []int{0, 0, 0, 1, -1}[ir(t, 0, 4, "ezero")]
	case 0:
		return ref.Emin + ir(t, 0, 80, "eoff")
	case 1:
		return ref.Emax - ir(t, 0, 80, "eoff")
	case 2, 3:
		return ir(t, -45, 45, "esmall")
	case 4:
		return ir(t, -420, 340, "emid")
	}
	return ir(t, ref.Emin, ref.Emax, "e")
}

func genSign(t *rapid.T) bool { return rapid.Bool().Draw(t, "neg") }

// genFinite draws a finite Decimal (zero coefficients included rarely).
func genFinite(t *rapid.T) D {
	return DFin(genSign(t), genCoef(t), genExp(t))
}

// genFiniteNZ draws a finite non-zero Decimal.
func genFiniteNZ(t *rapid.T) D {
	c := genCoef(t)
	if c.Sign() == 0 {
		c = bi(1)
	}
	return DFin(genSign(t), c, genExp(t))
}

// genZero draws a zero with any sign and exponent.
func genZero(t *rapid.T) D {
	switch ir(t, 0, 7, "zeroKind") {
	case 0, 1:
		// the Go zero value / the zero the package itself returns (all exponent bits clear), by far the most
		// common zero in practice, and its negative
		return DFin(genSign(t), new(big.Int), ref.Emin)
	case 2:
		return DFin(genSign(t), new(big.Int), 0) // IEEE's preferred 0e0
	}
	return DFin(genSign(t), new(big.Int), genExp(t))
}

// genSpecial draws NaN / Inf encodings, canonical or with arbitrary low bits.
func genSpecial(t *rapid.T) D {
	hi := u64(t, "shi")
	lo := u64(t, "slo")
	k := ir(t, 0, 5, "skind")
	sign := hi & (1 << 63)
	switch k {
	case 0:
		return D{0x7800_0000_0000_0000 | sign, 0}
	case 1:
		return D{0x7c00_0000_0000_0000, 0}
	case 2:
		return D{0x7800_0000_0000_0000 | sign | hi&(1<<58-1), lo} // Inf with garbage
	case 3:
		return D{0x7c00_0000_0000_0000 | sign | hi&(1<<58-1), lo} // NaN with payload, sign, "signalling" bit
	case 4:
		return D{0x7c00_0000_0000_0000 | sign, lo & 0xffffff} // NaN with small payload
	}
	return D{0x7e00_0000_0000_0000 | sign, lo}
}

// genAny draws any 128-bit pattern: uniform bits, structured finite, zeros,
// specials.
func genAny(t *rapid.T) D {
	switch ir(t, 0, 9, "anyKind") {
	case 0, 1:
		return D{u64(t, "hi"), u64(t, "lo")}
	case 2:
		return genSpecial(t)
	case 3:
		return genZero(t)
	}
	return genFinite(t)
}

// cohort returns every encoding of the finite value n (same sign), in order of
// increasing exponent.
func cohort(n ref.Num) []D {
	if n.Class != ref.Finite {
		panic("cohort of special")
	}
	if n.Coef.Sign() == 0 {
		return []D{DFin(n.Neg, n.Coef, n.Exp)}
	}
	// strip zeros
	c := new(big.Int).Set(n.Coef)
	e := n.Exp
	r := new(big.Int)
	q := new(big.Int)
	for e < ref.Emax {
		q.QuoRem(c, ref.Ten, r)
		if r.Sign() != 0 {
			break
		}
		c.Set(q)
		e++
	}
	// now go down from (c, e)
	var out []D
	for e >= ref.Emin && c.Cmp(ref.Cmax) <= 0 {
		out = append([]D{DFin(n.Neg, c, e)}, out...)
		c = new(big.Int).Mul(c, ref.Ten)
		e--
	}
	return out
}

// genCohortMember draws another encoding of the value of d (possibly d itself).
// Zeros get another exponent; NaN/Inf get other payload/garbage bits.
func genCohortMember(t *rapid.T, d D) D {
	n := d.Num()
	switch n.Class {
	case ref.NaN:
		hi := u64(t, "nhi")
		return D{0x7c00_0000_0000_0000 | d.Hi&(1<<63) | hi&(1<<58-1), u64(t, "nlo")}
	case ref.Inf:
		hi := u64(t, "ihi")
		return D{0x7800_0000_0000_0000 | d.Hi&(1<<63) | hi&(1<<58-1), u64(t, "ilo")}
	}
	if n.Coef.Sign() == 0 {
		return DFin(n.Neg, n.Coef, genExp(t))
	}
	co := cohort(n)
	// the two ends of the cohort matter most: the shortest encoding (what Canonical and the parser produce) and
	// the longest one (34 or 35 digits: every "at most 34 digits" assumption and every room-for-one-more-digit
	// test is decided there)
	switch ir(t, 0, 5, "memberEnd") {
	case 0:
		return co[0]
	case 1:
		return co[len(co)-1]
	}
	return co[ir(t, 0, len(co)-1, "member")]
}

// genNear draws an integer near one of the given pivots (within ±w) or exactly
// pivot+{-1,0,1}: the "threshold window" class of DESIGN §4.
func genNear(t *rapid.T, w int, pivots ...int) int {
	p := pivots[ir(t, 0, len(pivots)-1, "pivot")]
	if rapid.Bool().Draw(t, "tight") {
		return p + ir(t, -1, 1, "d1")
	}
	return p + ir(t, -w, w, "dw")
}

// abbr shortens long digit strings for samples and messages.
func abbr(s string) string {
	if len(s) <= 100 {
		return s
	}
	return fmt.Sprintf("%s…(%d chars)…%s", s[:40], len(s), s[len(s)-40:])
}

// inexactClass classifies how the exact value x sits relative to the format:
// "exact", "tie", "near-tie" or "inexact"; also returns the quantum exponent.
func inexactClass(x ref.X) (string, int) {
	e := ref.Quantum(x)
	_, half, exact := ref.IntDiv(x, e)
	switch {
	case exact:
		return "exact", e
	case half == 0:
		return "tie", e
	case isNearTie(x, e):
		return "near-tie", e
	}
	return "inexact", e
}

// ---- uniform draws ------------------------------------------------------------
//
// rapid's integer generators are deliberately biased towards small magnitudes
// (geometric bit length), which is what one wants for sizes and selectors but
// not for 64-bit words, exponents or offsets that must cover their range
// evenly. The helpers below hash two rapid draws into a uniform word. Every
// random choice still comes from rapid's bit stream, so replay and shrinking
// keep working (the shrinker can simplify the structure of a case, not the
// hashed words).

func u64(t *rapid.T, label string) uint64 {
	a := rapid.Uint64().Draw(t, label)
	b := rapid.Uint64().Draw(t, label)
	return splitmix(a*0x9e3779b97f4a7c15 ^ splitmix(b^0x632be59bd9b4e019))
}

func u32(t *rapid.T, label string) uint32 { return uint32(u64(t, label) >> 32) }

// ir draws an int in [lo, hi]: through rapid directly for small ranges
// (selectors, shrinkable), uniformly for wide ranges.
func ir(t *rapid.T, lo, hi int, label string) int {
	if hi < lo {
		panic(fmt.Sprintf("ir: empty range [%d, %d] (%s)", lo, hi, label))
	}
	if hi-lo <= 16 {
		return rapid.IntRange(lo, hi).Draw(t, label)
	}
	span := uint64(hi-lo) + 1
	return lo + int(u64(t, label)%span)
}

func ubytes(t *rapid.T, n int, label string) []byte {
	out := make([]byte, 0, n+8)
	for len(out) < n {
		w := u64(t, label)
		for i := 0; i < 8; i++ {
			out = append(out, byte(w>>(8*i)))
		}
	}
	return out[:n]
}

// isNearTie: the discarded part differs from one half of the quantum 10^e by
// less than 1e-6 of the quantum (but is not a tie).
func isNearTie(x ref.X, e int) bool {
	// frac = x/10^e - floor; compare |frac - 1/2| < 1e-6  <=>  |2*rem*10^6 - den*10^6| < 2*den
	num, den := x.Num, x.Den
	shift := e - x.Exp
	n, d := num, den
	if shift > 0 {
		d = new(big.Int).Mul(den, ref.Pow10(shift))
	} else if shift < 0 {
		n = new(big.Int).Mul(num, ref.Pow10(-shift))
	}
	rem := new(big.Int).Rem(n, d)
	rem.Lsh(rem, 1)
	rem.Sub(rem, d)
	rem.Abs(rem)
	if rem.Sign() == 0 {
		return false
	}
	rem.Mul(rem, big.NewInt(500000))
	return rem.Cmp(d) < 0
}

// prior returns the value a pointer-receiver method finds in its receiver before the call, as a pure function
// of the case identity h (so that replay files need no extra field): callers reuse variables, and what a
// decoding method stores must not depend on what was there. A quarter of the cases get the fresh zero value,
// the others all-ones, the largest negative finite value, an infinity, or arbitrary bits.
func prior(h uint64) d128.Decimal {
	h = splitmix(h ^ 0x7072696f72)
	switch h & 7 {
	case 0, 1:
		return d128.Decimal{}
	case 2:
		return D{^uint64(0), ^uint64(0)}.Dec()
	case 3:
		return D{0xdffe27ffffffffff, ^uint64(0)}.Dec()
	case 4:
		return D{0x7800000000000000, 0}.Dec()
	}
	return D{splitmix(h + 1), splitmix(h + 2)}.Dec()
}

// exactInAllModes re-runs a call whose exact result is representable under the five non-default values of
// DefaultRoundingMode: a result that needs no rounding cannot depend on the rounding mode ("exact whenever it
// fits / is representable" carries no mode), so anything but the same value betrays a spurious sticky or
// round digit that nearest-even happens to absorb.
func exactInAllModes(what string, want d128.Decimal, call func() d128.Decimal) *Violation {
	w := ref.Decode(want)
	for _, m := range ref.Modes {
		if m == d128.ToNearestEven {
			continue
		}
		var got d128.Decimal
		withDefaultMode(m, func() { got = call() })
		if g := ref.Decode(got); !ref.SameVal(g, w) {
			return violf("%s needs no rounding (%s under nearest-even) but under DefaultRoundingMode=%v the result is %s", what, w, m, g)
		}
	}
	return nil
}

// ownedBytes checks that a byte slice returned by the package belongs to the caller: two results held at the same
// time do not share memory, and overwriting one does not change what the next call returns (a result served from
// package-level storage would be corrupted by a caller that edits or reuses its buffer).
func ownedBytes(what string, first []byte, again func() []byte) (v *Violation) {
	keep := append([]byte(nil), first...)
	second := again()
	for i := range first {
		first[i] = 0xee
	}
	// put the bytes back whatever the outcome, so that a shared buffer does not poison the next evaluation
	defer copy(first, keep)
	if !bytes.Equal(second, keep) {
		return violf("%s: the result of a second call changed when the first result was overwritten (shared storage): % x, was % x", what, second, keep)
	}
	third := again()
	if !bytes.Equal(third, keep) {
		return violf("%s: after the caller overwrote an earlier result the call returns % x, was % x", what, third, keep)
	}
	return nil
}

// genWrapInt returns base displaced by a non-zero multiple of 2^16 or 2^32: an int argument that looks like the
// ordinary value base once it has been narrowed to int16 or int32 (a conversion placed ahead of a range test).
func genWrapInt(t *rapid.T, base int) int {
	m := ir(t, 1, 3, "wrapMul")
	if rapid.Bool().Draw(t, "wrapNeg") {
		m = -m
	}
	if rapid.Bool().Draw(t, "wrap32") {
		return base + m<<32
	}
	return base + m<<16
}

// genWrapAlias returns a value whose coefficient is what x's coefficient scaled by 10^k becomes when the product is
// truncated to one or two machine words, placed k exponents below x: the two are different numbers, but an
// alignment that multiplies without looking at the overflow (a plain uint64 product, a mul64 whose carry is
// dropped) sees them as equal. When the product does not overflow the result is an ordinary cohort member.
func genWrapAlias(t *rapid.T, x D) D {
	nx := x.Num()
	if nx.Class != ref.Finite || nx.Coef.Sign() == 0 {
		return x
	}
	k := ir(t, 1, 38, "aliasK")
	if nx.Exp-k < ref.Emin {
		k = nx.Exp - ref.Emin
	}
	if k <= 0 {
		return x
	}
	v := new(big.Int).Mul(nx.Coef, ref.Pow10(k))
	w := uint(64)
	if rapid.Bool().Draw(t, "alias128") {
		w = 128
	}
	a := new(big.Int).And(v, new(big.Int).Sub(new(big.Int).Lsh(ref.One, w), ref.One))
	if a.Cmp(ref.Cmax) > 0 {
		a.And(a, new(big.Int).Sub(new(big.Int).Lsh(ref.One, 64), ref.One))
	}
	if ir(t, 0, 5, "aliasOff") == 0 {
		a.Add(a, bi(int64(ir(t, -1, 1, "off"))))
		if a.Sign() < 0 || a.Cmp(ref.Cmax) > 0 {
			a.SetInt64(1)
		}
	}
	return DFin(nx.Neg, a, nx.Exp-k)
}
