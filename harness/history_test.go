package harness

import (
	"strconv"
	"strings"

	"verif/harness/ref"
)

// Per-check configuration of the history walks (history.go): which fields
// besides the Decimal operands may be varied, and sibling functions for the
// checks whose fields are related to each other.
func init() {
	c05.HistoryFields("S")                     // every byte string is an input of the parser
	c08.HistoryFields("DP")                    // every int is a dp
	c09from.HistoryFields("Bits64", "Bits32")  // every bit pattern is a float
	c10from.HistoryFields("I", "U")            // every integer
	c11new.HistoryFields("Sig", "Exp")         // every (int64, int)
	c11ldexp.HistoryFields("Exp")              // every int
	c12len.HistoryFields("Data")               // every byte slice
	c13unmarshal.HistoryFields("Data", "Mode") // every byte string, six default modes
	c14parts.HistoryFields("Form", "Coef", "Exp")
	c16.HistoryFields("Mode")
	c20.HistoryFields("Default")
	c20conc.NoHistory() // its argument already is a list of calls
	c19.HistorySiblings(c19Siblings)
	c07.HistorySiblings(c07Siblings)
	c10fromrat.HistorySiblings(c10FromRatSiblings)
}

// c19Siblings keeps the relation the cohort check is about (X and X2 encode one
// value, Y and Y2 another) and varies everything else about the operands.
func c19Siblings(a c19Args) []c19Args {
	flip := func(d D) D { return D{d.Hi ^ 1<<63, d.Lo} }
	var out []c19Args
	add := func(f func(b *c19Args)) { b := a; f(&b); out = append(out, b) }
	add(func(b *c19Args) { b.X, b.X2 = flip(a.X), flip(a.X2) })
	add(func(b *c19Args) { b.Y, b.Y2 = flip(a.Y), flip(a.Y2) })
	add(func(b *c19Args) { b.X, b.X2 = a.X2, a.X })
	add(func(b *c19Args) { b.Y, b.Y2 = a.Y2, a.Y })
	add(func(b *c19Args) { b.X, b.X2, b.Y, b.Y2 = a.Y, a.Y2, a.X, a.X2 })
	add(func(b *c19Args) { b.X2 = a.X })
	add(func(b *c19Args) { b.Y, b.Y2 = a.X, a.X2 })
	// the same pair of encodings at other exponents (both members moved by the same amount)
	shift := func(d D, de int) (D, bool) {
		n := d.Num()
		if n.Class != ref.Finite || n.Exp+de < ref.Emin || n.Exp+de > ref.Emax {
			return d, false
		}
		return DFin(n.Neg, n.Coef, n.Exp+de), true
	}
	for _, de := range []int{1, -1, 7, -19} {
		x, ok1 := shift(a.X, de)
		x2, ok2 := shift(a.X2, de)
		if ok1 && ok2 {
			add(func(b *c19Args) { b.X, b.X2 = x, x2 })
		}
	}
	return out
}

// c07Siblings: the same value under another precision or verb (a digit cache keyed by the value must not remember
// a rounding), and other values under the same spec.
func c07Siblings(a c07Args) []c07Args {
	var out []c07Args
	for _, s := range dSiblings(a.V) {
		b := a
		b.V = s
		out = append(out, b)
	}
	spec := a.Spec
	if spec == "" {
		return out
	}
	verb := spec[len(spec)-1]
	body := spec[:len(spec)-1]
	for _, v := range []byte("eEfFgG") {
		if v != verb {
			b := a
			b.Spec = body + string(v)
			out = append(out, b)
		}
	}
	head, prec, has := body, 0, false
	if i := strings.LastIndexByte(body, '.'); i >= 0 {
		if p, err := strconv.Atoi(body[i+1:]); err == nil || body[i+1:] == "" {
			head, prec, has = body[:i], p, true
		} else {
			return out
		}
	}
	with := func(p int) {
		b := a
		b.Spec = head + "." + strconv.Itoa(p) + string(verb)
		out = append(out, b)
	}
	if has {
		for _, p := range []int{prec + 1, prec - 1, prec + 7, prec / 2} {
			if p >= 0 && p <= 40 && p != prec {
				with(p)
			}
		}
		b := a
		b.Spec = head + string(verb) // no precision: shortest / default
		out = append(out, b)
	} else {
		with(2)
		with(17)
		with(34)
	}
	return out
}

// c10FromRatSiblings: the same numerator over other denominators (integer-valued, terminating, repeating) and the
// reciprocal, so that an exact conversion follows an inexact one and the other way round.
func c10FromRatSiblings(a c10FromRatArgs) []c10FromRatArgs {
	out := []c10FromRatArgs{
		{a.Num, "1"}, {a.Num, "3"}, {a.Num, "7"}, {a.Num, "8"}, {a.Num, "1000"},
		{"1", a.Den}, {"2", "3"}, {a.Den, a.Num},
	}
	if strings.HasPrefix(a.Num, "-") {
		out = append(out, c10FromRatArgs{a.Num[1:], a.Den})
	} else {
		out = append(out, c10FromRatArgs{"-" + a.Num, a.Den})
	}
	return out
}
