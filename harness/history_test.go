package harness

import "verif/harness/ref"

// Per-check configuration of the history walks (history.go): which fields
// besides the Decimal operands may be varied, and sibling functions for the
// checks whose fields are related to each other.
func init() {
	c05.HistoryFields("S")                     // every byte string is an input of the parser
	c08.HistoryFields("DP")                    // every int is a dp
	c09from.HistoryFields("Bits64", "Bits32")  // every bit pattern is a float
	c10from.HistoryFields("I", "U")            // every integer
	c11new.HistoryFields("Sig", "Exp")         // every (int64, int)
	c11ldexp.HistoryFields("Exp")              // every int
	c12len.HistoryFields("Data")               // every byte slice
	c13unmarshal.HistoryFields("Data", "Mode") // every byte string, six default modes
	c14parts.HistoryFields("Form", "Coef", "Exp")
	c16.HistoryFields("Mode")
	c20.HistoryFields("Default")
	c20conc.NoHistory() // its argument already is a list of calls
	c19.HistorySiblings(c19Siblings)
}

// c19Siblings keeps the relation the cohort check is about (X and X2 encode one
// value, Y and Y2 another) and varies everything else about the operands.
func c19Siblings(a c19Args) []c19Args {
	flip := func(d D) D { return D{d.Hi ^ 1<<63, d.Lo} }
	var out []c19Args
	add := func(f func(b *c19Args)) { b := a; f(&b); out = append(out, b) }
	add(func(b *c19Args) { b.X, b.X2 = flip(a.X), flip(a.X2) })
	add(func(b *c19Args) { b.Y, b.Y2 = flip(a.Y), flip(a.Y2) })
	add(func(b *c19Args) { b.X, b.X2 = a.X2, a.X })
	add(func(b *c19Args) { b.Y, b.Y2 = a.Y2, a.Y })
	add(func(b *c19Args) { b.X, b.X2, b.Y, b.Y2 = a.Y, a.Y2, a.X, a.X2 })
	add(func(b *c19Args) { b.X2 = a.X })
	add(func(b *c19Args) { b.Y, b.Y2 = a.X, a.X2 })
	// the same pair of encodings at other exponents (both members moved by the same amount)
	shift := func(d D, de int) (D, bool) {
		n := d.Num()
		if n.Class != ref.Finite || n.Exp+de < ref.Emin || n.Exp+de > ref.Emax {
			return d, false
		}
		return DFin(n.Neg, n.Coef, n.Exp+de), true
	}
	for _, de := range []int{1, -1, 7, -19} {
		x, ok1 := shift(a.X, de)
		x2, ok2 := shift(a.X2, de)
		if ok1 && ok2 {
			add(func(b *c19Args) { b.X, b.X2 = x, x2 })
		}
	}
	return out
}
